"""All monkeypatch seams.  Nothing in /repo is modified; everything here is installed at run
time inside check processes only (DESIGN §2.3).

  * bootstrap(): import einx from the working tree under test with threading.Lock/RLock replaced
    by simulated locks (only einx's own module-level locks are affected, dependencies are imported
    first), seed uuid4, remember the import-time registry snapshot and every functools cache.
  * reset_world(): bring the process back to "einx imported, never used".
  * fault seams: sympy.solve, exec in the python compiler, numpy functions, inspect.signature.
"""
import _thread
import gc
import os
import sys
import threading
import types
import uuid as _uuid
import random

REPO = os.environ.get("VERIF_REPO", "/repo")

SCHED = [None]  # the scheduler currently simulating (sim.sched.Scheduler) or None


# --------------------------------------------------------------------------------------------
# simulated locks
# --------------------------------------------------------------------------------------------
class SimLock:
    """A lock whose blocking is reported to the scheduler instead of blocking the OS thread."""

    _reentrant = False

    def __init__(self):
        self._real = _thread.allocate_lock()
        self._owner = None
        self._count = 0

    def acquire(self, blocking=True, timeout=-1):
        me = threading.get_ident()
        if self._reentrant and self._owner == me:
            self._count += 1
            return True
        s = SCHED[0]
        if s is not None and s.is_worker():
            while not self._real.acquire(False):
                if not blocking:
                    return False
                s.block_on(self)  # hands the baton on; returns when we are scheduled again
            self._owner = me
            self._count = 1
            s.note_lock_acquired(self)
            return True
        ok = self._real.acquire(blocking, timeout)
        if ok:
            self._owner = me
            self._count = 1
        return ok

    def release(self):
        if self._reentrant:
            if self._owner != threading.get_ident():
                raise RuntimeError("cannot release un-acquired lock")
            self._count -= 1
            if self._count > 0:
                return
        self._owner = None
        self._real.release()
        s = SCHED[0]
        if s is not None:
            s.lock_released(self)

    def __enter__(self):
        return self.acquire()

    def __exit__(self, *a):
        self.release()

    def locked(self):
        return self._real.locked()

    def _is_owned(self):
        return self._owner == threading.get_ident()


class SimRLock(SimLock):
    _reentrant = True


_ORIG_LOCKS = (threading.Lock, threading.RLock)
_ORIG_EVENT = threading.Event
_ORIG_CONDITION = threading.Condition


class SimEvent:
    """threading.Event whose wait() hands the baton on instead of blocking the OS thread.  A wait with a
    timeout times out (in virtual time) when nothing else in the simulation can run."""

    def __init__(self):
        self._flag = False
        self._real = _ORIG_EVENT()

    def is_set(self):
        return self._flag

    isSet = is_set

    def set(self):
        self._flag = True
        self._real.set()
        s = SCHED[0]
        if s is not None:
            s.lock_released(self)

    def clear(self):
        self._flag = False
        self._real.clear()

    def wait(self, timeout=None):
        s = SCHED[0]
        if s is not None and s.is_worker():
            while not self._flag:
                if s.block_on(self, timed=timeout is not None):
                    return self._flag  # timed out
            return True
        return self._real.wait(timeout)


class SimCondition:
    """threading.Condition over a (simulated) lock; waiting workers are parked through SimEvents."""

    def __init__(self, lock=None):
        self._lock = lock if lock is not None else SimRLock()
        self._real = _ORIG_CONDITION(self._lock)
        self._sim_waiters = []
        self.acquire = self._lock.acquire
        self.release = self._lock.release

    def __enter__(self):
        return self._lock.__enter__()

    def __exit__(self, *a):
        return self._lock.__exit__(*a)

    def _full_release(self):
        n = getattr(self._lock, "_count", 1) if getattr(self._lock, "_reentrant", False) else 1
        for _ in range(max(1, n)):
            self._lock.release()
        return max(1, n)

    def _restore(self, n):
        for _ in range(n):
            self._lock.acquire()

    def wait(self, timeout=None):
        s = SCHED[0]
        if s is not None and s.is_worker():
            ev = SimEvent()
            self._sim_waiters.append(ev)
            n = self._full_release()
            try:
                return ev.wait(timeout)
            finally:
                if ev in self._sim_waiters:
                    self._sim_waiters.remove(ev)
                self._restore(n)
        return self._real.wait(timeout)

    def wait_for(self, predicate, timeout=None):
        r = predicate()
        while not r:
            if not self.wait(timeout) and timeout is not None:
                return predicate()
            r = predicate()
        return r

    def notify(self, n=1):
        k = 0
        while self._sim_waiters and k < n:
            self._sim_waiters.pop(0).set()
            k += 1
        if k < n:
            try:
                self._real.notify(n - k)
            except RuntimeError:
                pass

    def notify_all(self):
        while self._sim_waiters:
            self._sim_waiters.pop(0).set()
        try:
            self._real.notify_all()
        except RuntimeError:
            pass

    notifyAll = notify_all


PERMANENT = [False]


def patch_locks(permanent=False):
    threading.Lock, threading.RLock = SimLock, SimRLock
    threading.Event, threading.Condition = SimEvent, SimCondition
    if permanent:
        PERMANENT[0] = True


def unpatch_locks():
    if PERMANENT[0]:
        return  # worker processes keep the simulated primitives for good: einx may create a lock at any time (e.g. inside an
        # adapter built between two simulations) and use it inside the next one; outside a simulation they behave like the real ones
    threading.Lock, threading.RLock = _ORIG_LOCKS
    threading.Event, threading.Condition = _ORIG_EVENT, _ORIG_CONDITION


# --------------------------------------------------------------------------------------------
# uuid4
# --------------------------------------------------------------------------------------------
_ORIG_UUID4 = _uuid.uuid4
_uuid_state = {"seed": 0, "streams": {}, "draws": 0}


def _seeded_uuid4():
    name = threading.current_thread().name
    st = _uuid_state["streams"].get(name)
    if st is None:
        from . import rng

        st = _uuid_state["streams"][name] = rng.stream(_uuid_state["seed"], "uuid:" + name)
    _uuid_state["draws"] += 1
    return _uuid.UUID(int=st.getrandbits(128), version=4)


def seed_uuid(seed):
    """One stream per thread *name* so that draws do not depend on the interleaving."""
    _uuid_state["seed"] = seed
    _uuid_state["streams"] = {}
    _uuid_state["draws"] = 0
    _uuid.uuid4 = _seeded_uuid4


def uuid_draws():
    return _uuid_state["draws"]


# --------------------------------------------------------------------------------------------
# bootstrap / reset
# --------------------------------------------------------------------------------------------
WORLD = types.SimpleNamespace(einx=None, registry=None, initial_state=None, caches=[], initial_modules=None, B=None)


def bootstrap(warmup=True, sim_locks=True):
    """Import einx from REPO's working tree with the seams in place."""
    if WORLD.einx is not None:
        return WORLD.einx
    if REPO not in sys.path[:1]:
        sys.path.insert(0, REPO)
    import numpy  # noqa: F401  dependencies first: their locks stay real
    import sympy  # noqa: F401
    import frozendict  # noqa: F401
    import inspect  # noqa: F401
    import concurrent.futures  # noqa: F401

    numpy.seterr(all="ignore")
    import warnings

    warnings.simplefilter("ignore")
    if sim_locks:
        patch_locks(permanent=True)
    import einx
    here = os.path.realpath(einx.__file__)
    if not here.startswith(os.path.realpath(REPO) + os.sep):
        raise RuntimeError(f"einx imported from {here}, expected under {REPO}")
    import einx._src.frontend.backend as B

    WORLD.einx = einx
    WORLD.B = B
    WORLD.registry = B.registry
    WORLD.initial_state = B.registry.state
    WORLD.caches = find_caches()
    # best effort: a tree under test may implement its cache differently (then nothing can be cleared; checks that need
    # cold caches per run use run-unique axis names in addition, see workload.rename_axes)
    WORLD.cache_isolation = bool(WORLD.caches) or os.environ.get("EINX_CACHE_SIZE") == "0"
    if not WORLD.cache_isolation:
        sys.stderr.write("[seams] no functools cache found in einx: compile caches cannot be cleared between runs\n")
    seed_uuid(0)
    if warmup:
        do_warmup()
    WORLD.initial_modules = set(sys.modules)
    return einx


def find_caches():
    """Every functools cache object that wraps einx code (per-operation compile caches)."""
    import functools

    t = type(functools.lru_cache(maxsize=None)(lambda: None))

    def is_einx(f, depth=0):
        if f is None or depth > 6:
            return False
        if (getattr(f, "__module__", None) or "").startswith("einx"):
            return True
        code = getattr(f, "__code__", None)
        if code is not None and "/einx/" in code.co_filename:
            return True
        return is_einx(getattr(f, "__wrapped__", None), depth + 1) or is_einx(getattr(f, "func", None), depth + 1)

    out = []
    for o in gc.get_objects():
        if type(o) is t and is_einx(getattr(o, "__wrapped__", None)):
            out.append(o)
    return out


def clear_caches():
    for c in WORLD.caches:
        c.cache_clear()


def do_warmup():
    """einx imports some of its own modules lazily on the first compilation; one throw-away call
    per operation family makes later step counts independent of what ran first (DESIGN §2.2)."""
    import numpy as np

    einx = WORLD.einx
    x = np.arange(6.0).reshape(2, 3)
    i = np.zeros((2, 1), dtype=np.int64)
    try:
        einx.id("wa (wb wc) -> wc wa wb", x, wc=3)
        einx.sum("wa [wb]", x)
        einx.add("wa wb, wb", x, x[0])
        einx.dot("wa wb, wc wb -> wa wc", x, x)
        einx.get_at("[wa] wb, wi [1] -> wi wb", x, i)
        einx.set_at("[wa] wb, wi [1], wi wb -> [wa] wb", x.copy(), i, x)
        einx.argmax("wa [wb]", x)
        einx.softmax("wa [wb]", x)
        einx.sort("wa [wb]", x)
        einx.solve_axes("wa wb", x)
        for b in ("numpy.einsum", "numpy.numpylike"):
            einx.sum("wa [wb]", x, backend=b, graph=True)
        op = einx.numpy.adapt_numpylike_reduce(lambda t, axis: np.asarray(np.sum(t, axis=axis)))
        op("wa [wb]", x)
        op = einx.numpy.adapt_numpylike_elementwise(lambda a, b: np.asarray(a + b))
        op("wa wb, wb", x, x[0])
        einx.sum("wa [wb]", lambda shape: np.ones(shape), wa=2, wb=2, backend="numpy")
    except Exception as e:  # a mutated tree may fail here; the checks themselves will say why
        sys.stderr.write(f"[seams] warm-up call failed: {type(e).__name__}: {e}\n")
    reset_world(0)


def reset_world(seed):
    """Back to 'einx imported and never used' (registry snapshot, caches, fake modules, uuid)."""
    WORLD.registry.state = WORLD.initial_state
    clear_caches()
    if WORLD.initial_modules is not None:
        for m in [m for m in sys.modules if m.startswith("fw_") and m not in WORLD.initial_modules]:
            del sys.modules[m]
    g = sys.modules.get("einx._src.tracer.graph")
    try:  # tolerant of refactorings of the tracing context stack: empty whatever list this thread sees
        st = getattr(getattr(g, "_dependon", None), "stack", None)
        if isinstance(st, list):
            del st[:]
    except Exception:
        pass
    seed_uuid(seed)


# --------------------------------------------------------------------------------------------
# dependency fault seams (active only inside the `with`)
# --------------------------------------------------------------------------------------------
class InjectedFault(Exception):
    """Raised by an injected dependency failure."""


class fault_sympy:
    """sympy.solve raises on its k-th call inside the block."""

    def __init__(self, k=1):
        self.k = k
        self.fired = 0

    def __enter__(self):
        import sympy

        self.sympy = sympy
        self.orig = sympy.solve
        n = [0]

        def solve(*a, **kw):
            n[0] += 1
            if n[0] == self.k:
                self.fired += 1
                raise InjectedFault("sympy.solve failed (injected)")
            return self.orig(*a, **kw)

        sympy.solve = solve
        return self

    def __exit__(self, *a):
        self.sympy.solve = self.orig


class fault_exec:
    """`exec` inside einx's python compiler raises (shadowed in the module globals)."""

    def __init__(self):
        self.fired = 0

    def __enter__(self):
        import einx._src.tracer.compiler.python as P

        self.P = P

        def _exec(*a, **kw):
            self.fired += 1
            raise InjectedFault("exec failed (injected)")

        P.__dict__["exec"] = _exec
        return self

    def __exit__(self, *a):
        self.P.__dict__.pop("exec", None)


class fault_numpy:
    """A numpy function used by generated code raises on its first call inside the block."""

    def __init__(self, names=("reshape", "transpose", "sum", "einsum", "add", "multiply", "take", "broadcast_to", "asarray", "max", "min")):
        self.names = names
        self.fired = 0

    def __enter__(self):
        import numpy as np

        self.np = np
        self.orig = {}
        for n in self.names:
            if hasattr(np, n):
                self.orig[n] = getattr(np, n)

                outer = self

                class Bad:  # any use fires - numpy itself reaches ufuncs through the module attribute (np.prod -> np.multiply.reduce)
                    def __init__(self, name):
                        object.__setattr__(self, "_n", name)

                    def __call__(self, *a, **kw):
                        outer.fired += 1
                        raise InjectedFault(f"numpy.{self._n} failed (injected)")

                    def __getattr__(self, attr):
                        outer.fired += 1
                        raise InjectedFault(f"numpy.{object.__getattribute__(self, '_n')}.{attr} failed (injected)")

                setattr(np, n, Bad(n))
        return self

    def __exit__(self, *a):
        for n, f in self.orig.items():
            setattr(self.np, n, f)


class fault_inspect:
    """inspect.signature raises ValueError (as it does for some builtins) inside the block."""

    def __init__(self):
        self.fired = 0

    def __enter__(self):
        import inspect

        self.inspect = inspect
        self.orig = inspect.signature

        def signature(*a, **kw):
            self.fired += 1
            raise ValueError("no signature found (injected)")

        inspect.signature = signature
        return self

    def __exit__(self, *a):
        self.inspect.signature = self.orig


class InjectedAbort(BaseException):
    """Asynchronous exception delivered at an arbitrary einx source line."""


EINX_DIR = None


def einx_dir():
    global EINX_DIR
    if EINX_DIR is None:
        EINX_DIR = os.path.dirname(os.path.realpath(WORLD.einx.__file__)) + os.sep
    return EINX_DIR


_CLEANUP_OFFSETS = {}


def cleanup_offsets(code):
    """Instruction offsets of `code` that belong to the exit sequence of a with statement: the call
    __exit__(None, None, None) after the body and the exception handler that calls __exit__(*exc_info).
    A `line` event there (the with header's line is visited again) is inside the cleanup handler."""
    r = _CLEANUP_OFFSETS.get(code)
    if r is None:
        import dis

        r = set()
        ins = list(dis.get_instructions(code))
        for i, x in enumerate(ins):
            if x.opname in ("PUSH_EXC_INFO", "WITH_EXCEPT_START", "RERAISE", "POP_EXCEPT", "CLEANUP_THROW"):
                r.add(x.offset)
            if x.opname == "LOAD_CONST" and x.argval is None and i + 3 < len(ins) and [y.opname for y in ins[i + 1:i + 4]] == ["LOAD_CONST", "LOAD_CONST", "CALL"] \
                    and ins[i + 1].argval is None and ins[i + 2].argval is None:
                r.update(y.offset for y in ins[i:i + 5])
        _CLEANUP_OFFSETS[code] = r
    return r


class fault_async:
    """Raise InjectedAbort on the k-th `line` event in einx files (excluding cleanup frames and the
    exit sequence of with statements: an exception delivered there defeats any with statement)."""

    def __init__(self, k):
        self.k = k
        self.count = 0
        self.fired = 0
        self.where = None

    def _global(self, frame, event, arg):
        fn = frame.f_code.co_filename
        if not fn.startswith(einx_dir()):
            return None
        f = frame
        while f is not None:  # not inside (or below) a context-manager enter/exit: DESIGN §3.C06
            if f.f_code.co_name in ("__enter__", "__exit__"):
                return None
            f = f.f_back
        return self._local

    def _local(self, frame, event, arg):
        if event == "line":
            if frame.f_lasti in cleanup_offsets(frame.f_code):
                return self._local
            self.count += 1
            if self.count == self.k and not self.fired:
                self.fired = 1
                self.where = (frame.f_code.co_filename[len(einx_dir()):], frame.f_lineno, frame.f_code.co_name)
                raise InjectedAbort()
        return self._local

    def __enter__(self):
        sys.settrace(self._global)
        return self

    def __exit__(self, *a):
        sys.settrace(None)
