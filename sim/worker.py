"""Worker process: long-lived, executes runs of one check.  Started by sim.driver with an explicit
environment; talks JSON lines over stdin / a private copy of stdout."""
import faulthandler
import importlib
import json
import os
import sys
import traceback


def main():
    out = os.fdopen(os.dup(1), "w", buffering=1)
    os.dup2(2, 1)  # whatever einx or a callback prints goes to the log, never into the protocol
    sys.stdout = sys.stderr
    faulthandler.enable()
    verif = os.path.dirname(os.path.dirname(os.path.abspath(__file__)))
    if verif not in sys.path:
        sys.path.insert(0, verif)
    modname = sys.argv[1]

    def send(obj):
        out.write(json.dumps(obj, sort_keys=True) + "\n")
        out.flush()

    mod = None
    cfg = None
    hist = []  # run indices this process has executed: part of the history of a violating run (replayed when the case alone does not reproduce)
    for line in sys.stdin:
        line = line.strip()
        if not line:
            continue
        msg = json.loads(line)
        cmd = msg.get("cmd")
        try:
            if cmd == "init":
                cfg = msg.get("cfg", {})
                mod = importlib.import_module(modname)
                info = mod.worker_init(cfg) or {}
                send({"ready": True, "info": info, "pid": os.getpid()})
            elif cmd == "run":
                hist.append([])
                for i in msg["indices"]:
                    wall = msg.get("wall_per_run")
                    if wall:
                        faulthandler.dump_traceback_later(wall, exit=True)
                    try:
                        res = mod.run_index(i, msg["master"], cfg)
                    finally:
                        if wall:
                            faulthandler.cancel_dump_traceback_later()
                    res["i"] = i
                    if res.get("verdict") in ("violation", "known"):
                        res["worker_prefix"] = [list(h) for h in hist]  # grouped by command, so that a replay can send the very same byte stream
                    hist[-1].append(i)
                    send(res)
                send({"done": True})
            elif cmd == "exec":
                res = mod.exec_case(msg["case"], cfg)
                send(res)
                send({"done": True})
            elif cmd == "shrink":
                res = mod.shrink_case(msg["case"], msg["klass"], dict(cfg, want_verdict=msg.get("verdict", "violation")))
                send({"case": res})
                send({"done": True})
            elif cmd == "call":
                res = getattr(mod, msg["fn"])(*msg.get("args", []), cfg=cfg)
                send({"result": res})
                send({"done": True})
            elif cmd == "quit":
                break
            else:
                send({"error": f"unknown cmd {cmd}"})
                send({"done": True})
        except BaseException as e:  # harness error: reported, never a silent pass
            send({"harness_error": f"{type(e).__name__}: {e}", "traceback": traceback.format_exc()[-4000:]})
            send({"done": True})
    out.close()


if __name__ == "__main__":
    main()
