"""Wing-Gong style linearizability search over a functional sequential specification.

events: list of dicts {thread, idx, inv, ret, out, op}; inv/ret are the scheduler's global event
sequence numbers.  spec_step(state, op) -> (new_state, expected_outcome); states are treated as
immutable values (the caller clones).  An order is a witness iff it respects real-time order
(a returned before b was invoked => a before b; this subsumes per-thread program order), every
outcome equals the spec's, and final_ok(state) holds at the end.
"""


def find_witness(events, init_state, spec_step, final_ok, same=lambda a, b: a == b, max_nodes=200000):
    n = len(events)
    events = sorted(events, key=lambda e: e["inv"])
    nodes = [0]
    seen_dead = set()

    def rec(done, state, order, key):
        if len(done) == n:
            return list(order) if final_ok(state) else None
        nodes[0] += 1
        if nodes[0] > max_nodes:
            raise RuntimeError("linearizability search exceeded its node budget")
        min_ret = min(e["ret"] for i, e in enumerate(events) if i not in done)
        for i, e in enumerate(events):
            if i in done:
                continue
            if e["inv"] > min_ret:  # some pending op returned before e was invoked
                continue
            st2, exp, k2 = spec_step(state, e["op"])
            if not same(exp, e["out"]):
                continue
            dk = (frozenset(done | {i}), k2) if k2 is not None else None
            if dk is not None and dk in seen_dead:
                continue
            r = rec(done | {i}, st2, order + [i], k2)
            if r is not None:
                return r
            if dk is not None:
                seen_dead.add(dk)
        return None

    w = rec(frozenset(), init_state, [], None)
    if w is None:
        return None, nodes[0]
    return [(events[i]["thread"], events[i]["idx"]) for i in w], nodes[0]
