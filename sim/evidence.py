"""Evidence files per /root/.vp/EVIDENCE.schema.json (level: exploration)."""
import json
import os

VERIF = os.path.dirname(os.path.dirname(os.path.abspath(__file__)))

REAL = [
    "all einx code from the working tree of /repo",
    "numpy, sympy, frozendict, functools caches",
    "CPython threads (parked/released one at a time by the baton scheduler)",
]
STUB = [
    "who runs next (seeded scheduler)", "threading.Lock/RLock created by einx (simulated locks)", "uuid.uuid4 (seeded)",
    "foreign frameworks (synthetic Backend objects / tensor classes; torch, jax, mlx, tensorflow, tinygrad are not installed)",
    "framework modules in sys.modules (fake ModuleType objects)", "user callbacks (instrumented)", "injected dependency failures",
]


def write(prop, tier, seed, coverage, wall_s, violations, assumptions=()):
    cov = dict(coverage)
    cov.setdefault("real_components", REAL)
    cov.setdefault("stubbed_components", STUB)
    cov.setdefault("simulated_time", "n/a - einx has no clock; logical steps (operations, traced source lines) are reported instead")
    doc = {
        "property_id": prop,
        "tier": tier,
        "seed": int(seed),
        "level": "exploration",
        "coverage": cov,
        "assumptions": list(assumptions),
        "wall_s": round(float(wall_s), 3),
        "violations": int(violations),
    }
    os.makedirs(os.path.join(VERIF, "evidence"), exist_ok=True)
    path = os.path.join(VERIF, "evidence", f"{prop}.json")
    tmp = path + ".tmp"
    with open(tmp, "w") as f:
        json.dump(doc, f, indent=1, sort_keys=True, default=str)
        f.write("\n")
    os.replace(tmp, path)
    return path


class Counter(dict):
    def add(self, k, n=1):
        self[k] = self.get(k, 0) + n

    def merge(self, other):
        for k, v in (other or {}).items():
            self[k] = self.get(k, 0) + v
