"""Client side of the reference zygote (sim/refproc.py zygote): pristine outcomes by fork."""
import json
import os
import subprocess
import sys

from . import driver

VERIF = driver.VERIF


class Zygote:
    def __init__(self, hashseed=0, warm_sympy=True):
        env = driver.base_env(hashseed=hashseed, extra={"VERIF_ZYGOTE_WARM_SYMPY": "1" if warm_sympy else "0"})
        self.p = subprocess.Popen([sys.executable, os.path.join(VERIF, "sim", "refproc.py"), "zygote"], stdin=subprocess.PIPE, stdout=subprocess.PIPE,
                                  stderr=subprocess.DEVNULL, env=env, cwd=VERIF)
        line = self.p.stdout.readline()
        if not line or not json.loads(line).get("ready"):
            raise driver.HarnessError("reference zygote failed to start")
        self.n = 0

    def ref(self, d, ctx=(), uuid_seed=0, noise=0):
        self.n += 1
        self.p.stdin.write((json.dumps({"id": self.n, "d": d, "ctx": list(ctx), "uuid_seed": uuid_seed, "noise": noise}) + "\n").encode())
        self.p.stdin.flush()
        line = self.p.stdout.readline()
        if not line:
            raise driver.HarnessError("reference zygote died")
        out = json.loads(line)["outcome"]
        if out.get("kind") == "harness_error":
            raise driver.HarnessError("reference child failed: " + out.get("msg", ""))
        return out

    def close(self):
        try:
            self.p.stdin.write(b'{"cmd": "quit"}\n')
            self.p.stdin.flush()
            self.p.wait(timeout=10)
        except Exception:
            self.p.kill()


def fresh_reference(d, ctx=(), uuid_seed=0, noise=0, hashseed=0, cache_size=None):
    """Outcome of d in a spawned, completely fresh interpreter."""
    p = subprocess.run([sys.executable, os.path.join(VERIF, "sim", "refproc.py")], input=json.dumps({"items": [{"d": d, "ctx": list(ctx), "uuid_seed": uuid_seed, "noise": noise}]}).encode(),
                       capture_output=True, env=driver.base_env(hashseed=hashseed, cache_size=cache_size), timeout=300, cwd=VERIF)
    try:
        return json.loads(p.stdout)["outcomes"][0]
    except Exception as e:
        raise driver.HarnessError(f"fresh reference failed: {p.stderr.decode()[-800:]}") from e
