"""Seed derivation: one integer (VERIF_SEED) decides everything.

run_seed(prop, i) = sha256(VERIF_SEED | prop | i); every choice inside a run is drawn from
named sub-streams of that run seed.  No global `random` state is ever used, logging never
draws from a PRNG.
"""
import hashlib
import os
import random


def derive(*parts) -> int:
    h = hashlib.sha256("|".join(str(p) for p in parts).encode()).digest()
    return int.from_bytes(h[:8], "big")


def master_seed() -> int:
    try:
        return int(os.environ.get("VERIF_SEED", "0") or 0)
    except ValueError:
        return derive("VERIF_SEED", os.environ.get("VERIF_SEED"))


def run_seed(prop: str, index: int, master=None) -> int:
    return derive(master_seed() if master is None else master, prop, index)


def stream(seed: int, name: str) -> random.Random:
    return random.Random(derive(seed, name))


def tag(seed: int) -> str:
    """8 hex digits that make axis names unique per run."""
    return hashlib.sha256(str(seed).encode()).hexdigest()[:8]
