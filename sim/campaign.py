"""Generic campaign: seeded batch -> aggregate -> shrink -> replay file -> verified replay ->
known-finding filter -> evidence -> exit code.  Used by the in-worker checks (C10, C11, C13, C15);
C06 and C16 have their own process structure but reuse the reporting half."""
import hashlib
import json
import os
import sys
import time

from . import driver, evidence, rng

VERIF = driver.VERIF
KNOWN_FILE = os.path.join(VERIF, "known_findings.jsonl")


def load_known(prop):
    out = {}
    if os.path.exists(KNOWN_FILE):
        for line in open(KNOWN_FILE):
            line = line.strip()
            if not line or line.startswith("#"):
                continue
            d = json.loads(line)
            if d.get("property") == prop and d.get("status") == "known":
                out[d["signature"]] = d
    return out


def write_replay(prop, case, verdict, prefix=None):
    os.makedirs(os.path.join(VERIF, "replays"), exist_ok=True)
    doc = {"property": prop, "case": case, "klass": verdict.get("klass"), "detail": verdict.get("detail"),
           "expected": verdict.get("expected"), "observed": verdict.get("observed"), "event_log_sha": verdict.get("log_sha")}
    if prefix:
        doc["worker_history"] = prefix  # {"indices", "master", "cfg"}: the runs one worker process executed, the last one being the case
    body = json.dumps(doc, indent=1, sort_keys=True, default=str)
    sha = hashlib.sha256(body.encode()).hexdigest()[:8]
    path = os.path.join(VERIF, "replays", f"{prop}-{case.get('seed', 0)}-{sha}.json")
    with open(path, "w") as f:
        f.write(body + "\n")
    return path


def run_history(module, spec, cfg, groups, master, timeout):
    """Fresh worker under `spec`; send one run command per group of indices (the same commands, in the same
    order, that the original worker process received); return the result of the last index."""
    wcfg = dict(cfg)
    wcfg["env"] = spec
    last = {}
    try:
        w = driver.WorkerProc(module, driver.env_for(spec), wcfg)
    except driver.HarnessError as e:
        return {"harness_error": str(e)}
    try:
        deadline = time.monotonic() + timeout
        for g in groups:
            if not g:
                continue
            for o in w.request({"cmd": "run", "indices": g, "master": master, "wall_per_run": cfg.get("wall_per_run")}, timeout=max(30.0, deadline - time.monotonic())):
                if "harness_error" in o:
                    return o
                last = o
    except driver.HarnessError as e:
        return {"harness_error": str(e)}
    finally:
        w.close()
    return last


def replay_with_history(module, prop, res, cfg, master, log=print):
    """The case alone did not reproduce in a fresh worker.  The run is a function of its seed only if nothing
    but the documented caches (which the harness resets) survives from one call to the next; replay the whole
    sequence of runs its worker process had executed, then minimise that sequence to a suffix."""
    prefix = res.get("worker_prefix")
    if not prefix or master is None:
        return None
    spec = res["case"].get("env", {})
    want, klass, i = res.get("verdict", "violation"), res["klass"], res["i"]
    per = float(cfg.get("history_wall_per_run", 20.0))
    groups = [list(g) for g in prefix]
    groups[-1] = groups[-1] + [i]  # the violating run ends the history (the rest of its command was never a cause)

    def attempt(gs):
        f = run_history(module, spec, cfg, gs, master, timeout=60 + per * sum(len(g) for g in gs))
        return f, (f.get("i") == i and f.get("verdict") == want and f.get("klass") == klass)

    f, ok = attempt(groups)
    if not ok:
        f, ok = attempt(groups)
    if not ok:
        return None
    keep = groups
    tries = 0
    while len(keep) > 1 and tries < 8:  # bisect towards the shortest suffix of the history that still reproduces
        half = keep[len(keep) // 2:]
        tries += 1
        f2, ok2 = attempt(half)
        if ok2:
            keep, f = half, f2
        else:
            break
    f3, ok3 = attempt(keep)  # the file as written must reproduce
    if not ok3:
        keep = groups
        f3, ok3 = attempt(keep)
        if not ok3:
            return None
    n_before = sum(len(g) for g in keep) - 1
    how = (f"reproduces when the {n_before} runs that the same interpreter executed before it are replayed first" if n_before
           else "reproduces when the whole run is re-executed from its seed in a fresh interpreter")
    f3["detail"] = (f"{f3.get('detail')} [the extracted case alone does not reproduce in a fresh interpreter; {how}: "
                    "something other than the caches einx documents (or the address of a dead object) carries over from earlier calls]")
    path = write_replay(prop, res["case"], f3, prefix={"groups": keep, "master": master, "cfg": cfg})
    return path, f3


def report_violation(module, prop, res, cfg, shrink=True, log=print, master=None):
    """Shrink the failing case in a fresh worker, write the replay file, replay it once in another
    fresh worker.  Returns (path, reproduced, final_result)."""
    case = res["case"]
    spec = case.get("env", {})
    klass = res["klass"]
    if shrink:
        try:
            out = driver.one_shot(module, spec, cfg, {"cmd": "shrink", "case": case, "klass": klass, "verdict": res.get("verdict", "violation")}, timeout=cfg.get("shrink_wall", 600))
            for o in out:
                if "case" in o and o["case"]:
                    case = o["case"]
                if "harness_error" in o:
                    log(f"[{prop}] shrink failed ({o['harness_error']}); reporting the unshrunk case")
        except driver.HarnessError as e:
            log(f"[{prop}] shrink failed ({e}); reporting the unshrunk case")
    want = res.get("verdict", "violation")

    def replay_once(c):
        try:
            out = driver.one_shot(module, spec, cfg, {"cmd": "exec", "case": c}, timeout=cfg.get("replay_wall", 300))
        except driver.HarnessError as e:
            out = [{"harness_error": str(e)}]
        f = out[0] if out else {}
        return f, (f.get("verdict") == want and f.get("klass") == klass)

    # the (shrunk) case must reproduce in a fresh worker; a change under test whose behaviour depends on something the simulator
    # cannot own (object addresses, e.g. a memo keyed by id()) may need more than one attempt - that is reported, never hidden
    final = {}
    for cand in ([case, res["case"]] if case is not res["case"] else [case]):
        for attempt in range(1, 4):
            final, ok = replay_once(cand)
            if ok:
                if attempt > 1:
                    final["detail"] = f"{final.get('detail')} [reproduced on replay attempt {attempt} of 3: the failure depends on a source of nondeterminism outside the simulator, e.g. object addresses]"
                path = write_replay(prop, cand, final)
                return path, True, final
    got = replay_with_history(module, prop, res, cfg, master, log=log)
    if got:
        return got[0], True, got[1]
    path = write_replay(prop, res["case"], res)
    return path, False, final


def run(module, prop, tier, plan, describe, assumptions=()):
    """plan: dict(groups, n_workers, chunk, wall_per_chunk, cfg, recycle_after).
    describe(results, agg) -> extra coverage keys (rule, ...)."""
    t0 = time.time()
    master = rng.master_seed()
    cfg = dict(plan.get("cfg", {}))
    cfg["tier"] = tier
    budget = os.environ.get("VERIF_BUDGET_S")
    deadline = time.monotonic() + float(budget) if budget else None
    mx = os.environ.get("VERIF_MAX_RUNS")  # development aid: truncate every group
    if mx:
        plan = dict(plan, groups=[dict(g, indices=list(g["indices"])[:int(mx)]) for g in plan["groups"]])
    log_dir = os.path.join(VERIF, "replays", "logs", prop)
    import shutil

    shutil.rmtree(log_dir, ignore_errors=True)  # worker stderr of this batch only
    os.makedirs(log_dir, exist_ok=True)
    print(f"[{prop}] tier={tier} VERIF_SEED={master} runs={sum(len(g['indices']) for g in plan['groups'])} workers={plan.get('n_workers', 16)}", flush=True)
    total = sum(len(g["indices"]) for g in plan["groups"])
    prog = {"n": 0, "viol": 0, "t": time.time()}

    def on_result(obj):
        prog["n"] += 1
        if obj.get("verdict") == "violation":
            prog["viol"] += 1
        if time.time() - prog["t"] > 120:
            prog["t"] = time.time()
            print(f"[{prop}] ... {prog['n']}/{total} runs, {prog['viol']} violating so far, {time.time() - t0:.0f}s", flush=True)

    results, errors, skipped = driver.run_batch(
        module, plan["groups"], master, cfg, on_result=on_result, n_workers=plan.get("n_workers", 16), chunk=plan.get("chunk", 25),
        wall_per_chunk=plan.get("wall_per_chunk", 300.0), recycle_after=plan.get("recycle_after"), log_dir=log_dir, deadline=deadline)
    stats = evidence.Counter()
    faults = evidence.Counter()
    probes = evidence.Counter()
    sigs = set()
    samples = []
    viols = []
    knowns = []
    for r in results:
        stats.merge(r.get("stats"))
        faults.merge(r.get("faults"))
        probes.merge(r.get("probes"))
        sigs.update(r.get("sigs", ()))
        if r.get("sample") is not None and len(samples) < 3:
            samples.append(r["sample"])
        if r.get("verdict") == "violation":
            viols.append(r)
        elif r.get("verdict") == "known":
            knowns.append(r)
    known_db = load_known(prop)
    exit_code = 0
    # known findings: only signatures listed in the committed file are suppressed
    seen_known = {}
    for r in knowns:
        sig = r.get("known_sig")
        if sig in known_db:
            seen_known.setdefault(sig, []).append(r)
        else:
            viols.append(r)
    for sig, rs in sorted(seen_known.items()):
        print(f"KNOWN-FINDING: property={prop} {known_db[sig]['what']} (signature={sig}; {len(rs)} runs, first at run {rs[0]['i']})")
    viols.sort(key=lambda r: r["i"])
    reported = {}
    tried = {}
    flaky = {}
    for r in viols:
        k = r.get("klass")
        if k in reported or len(reported) >= 3 or tried.get(k, 0) >= 3:
            continue
        tried[k] = tried.get(k, 0) + 1
        path, ok, final = report_violation(module, prop, r, cfg, master=master)
        if ok:
            reported[k] = path
            flaky.pop(k, None)
            print(f"[{prop}] run {r['i']} (seed {r['case'].get('seed')}): {final.get('klass')}: {final.get('detail')}")
            print(f"VIOLATION property={prop} replay={path}", flush=True)
            exit_code = 1 if exit_code in (0, 1) else exit_code
        else:
            flaky[k] = (r["i"], path, final)
    for k, (i, path, final) in flaky.items():  # no run of this class reproduced in fresh workers: a broken check, never a silent pass
        print(f"HARNESS-FLAKY property={prop} run={i} klass={k} replay={path} (did not reproduce in a fresh worker: {str(final)[:300]})", flush=True)
        exit_code = 2 if exit_code == 0 else exit_code
    if errors:
        shown = set()
        for e in errors:
            msg = str(e.get("harness_error"))[:300]
            if msg in shown or len(shown) >= 3:
                continue
            shown.add(msg)
            print(f"[{prop}] HARNESS-ERROR {msg} {e.get('traceback', '')[-1200:]}", flush=True)
        if exit_code == 0:
            exit_code = 2
    vac = plan.get("vacuity")  # (stat key, minimum per run): a batch in which nothing ever succeeds proves nothing
    if vac and results and stats.get(vac[0], 0) < vac[1] * len(results):
        print(f"[{prop}] HARNESS-ERROR vacuous batch: {vac[0]}={stats.get(vac[0], 0)} over {len(results)} runs - the tree under test or the generator is broken", flush=True)
        exit_code = exit_code or 2
    wall = time.time() - t0
    n = len(results)
    agg = {"stats": stats, "faults": faults, "probes": probes, "sigs": sigs, "n": n}
    cov = {
        "evaluations": n,
        "distinct_nontrivial": len(sigs),
        "samples": samples,
        "runs_per_hour": int(n / wall * 3600) if wall > 0 else 0,
        "seeds": {"VERIF_SEED": master, "run_seed": "sha256(VERIF_SEED|property|index)", "indices": [0, n]},
        "fault_counts": dict(sorted(faults.items())),
        "probes": dict(sorted(probes.items())),
        "stats": dict(sorted(stats.items())),
        "skipped_after_budget": len(skipped),
        "harness_errors": len(errors),
        "known_finding_runs": {s: len(v) for s, v in seen_known.items()},
        "env_groups": [g["env"] for g in plan["groups"]],
    }
    cov.update(describe(results, agg))
    zero = [k for k, v in cov["probes"].items() if v == 0]
    ass = list(assumptions) + [f"coverage gap: probe '{k}' was never hit in this run" for k in zero]
    evidence.write(prop, tier, master, cov, wall, len([r for r in viols]), ass)
    print(f"[{prop}] {n} runs in {wall:.1f}s, distinct_nontrivial={len(sigs)}, violations={len(viols)}, known={len(knowns)}, exit={exit_code}", flush=True)
    return exit_code


def replay(module, prop, path, cfg):
    doc = json.load(open(path))
    case = doc["case"]
    hist = doc.get("worker_history")
    if hist:
        import importlib

        prep = getattr(importlib.import_module(module), "prepare_history_replay", None)
        if prep:
            prep(hist)
        final = run_history(module, case.get("env", {}), hist["cfg"], hist["groups"], hist["master"], timeout=60 + 20.0 * sum(len(g) for g in hist["groups"]))
    else:
        out = driver.one_shot(module, case.get("env", {}), cfg, {"cmd": "exec", "case": case}, timeout=600)
        final = out[0] if out else {}
    if "harness_error" in final:
        print(f"[{prop}] HARNESS-ERROR {final['harness_error']}\n{final.get('traceback', '')}")
        return 2
    if final.get("verdict") in ("violation", "known"):
        known_db = load_known(prop)
        if final.get("verdict") == "known" and final.get("known_sig") in known_db:
            print(f"KNOWN-FINDING: property={prop} {known_db[final['known_sig']]['what']}")
            return 0
        print(f"[{prop}] {final.get('klass')}: {final.get('detail')}")
        print(f"VIOLATION property={prop} replay={path}")
        same = doc.get("event_log_sha") in (None, final.get("log_sha"))
        print(f"[{prop}] event log {'identical to' if same else 'DIFFERS from'} the recorded one")
        return 1
    print(f"[{prop}] replay of {path}: property held ({final.get('verdict')})")
    return 0
