"""Structured generator of einx calls (valid and slightly corrupted) as JSON-able descriptors.

descriptor = {"op", "desc", "tensors": [tspec], "kw": {name: value}, "graph": bool, "backend": None|name}
tspec      = {"shape": [...], "dtype": "int64|float64|bool", "data": [flat]}            (ndarray)
           | {"scalar": v, "type": "int|float|bool|np.float32|np.int64|np.float64"}      (Python / numpy scalar)
kw values  = int | float | bool | str | list | {"np": dtype, "value": v} | {"nd": tspec}

Data are permutations of 1..n (distinct values: no ties in sort/argsort/argmax).
"""
import numpy as np

NAMES = list("abcdefgh")
REDUCE = ["sum", "mean", "var", "std", "prod", "count_nonzero", "any", "all", "max", "min", "logsumexp"]
ELEM = ["add", "subtract", "multiply", "true_divide", "maximum", "minimum", "less", "equal", "logical_and", "where", "logaddexp",
        "floor_divide", "divide", "logical_or", "less_equal", "greater", "greater_equal", "not_equal"]
PRES = ["flip", "roll", "sort", "argsort", "softmax", "log_softmax"]
# operations that only move data (results must be bit-identical across processes)
DATA_MOVING = {"id", "get_at", "set_at", "flip", "roll", "sort", "argsort", "argmax", "argmin", "max", "min", "maximum", "minimum", "where", "less", "equal",
               "any", "all", "count_nonzero", "logical_and", "logical_or", "less_equal", "greater", "greater_equal", "not_equal", "solve_axes", "solve_shapes", "matches"}
ADAPTERS = ["red_sum_scale", "red_max", "el_axpy", "el_mul", "red_times2", "red_times3", "el_plus1", "el_plus5"]
FAMILIES = ["id", "id", "reduce", "reduce", "elem", "elem", "dot", "dot3", "get_at", "get_at_multi", "update_at", "argfind", "pres", "idcat", "ell", "ellred", "solve", "allscalar", "cseblock", "nested"]


def mkdata(rng, shape, kind="int"):
    n = int(np.prod(shape)) if len(shape) else 1
    perm = list(range(1, n + 1))
    rng.shuffle(perm)
    if kind == "float":
        data = [p / 4.0 for p in perm]
        dt = "float64"
    elif kind == "bool":
        data = [bool(p % 2) for p in perm]
        dt = "bool"
    else:
        data = perm
        dt = "int64"
    return {"shape": [int(s) for s in shape], "dtype": dt, "data": data}


def to_array(t):
    return np.array(t["data"], dtype=t["dtype"]).reshape(t["shape"])


def materialise_tensor(t):
    if "scalar" in t:
        v = t["scalar"]
        ty = t.get("type", "float")
        return {"int": int, "float": float, "bool": bool, "np.float32": np.float32, "np.int64": np.int64, "np.float64": np.float64, "np.bool_": np.bool_}[ty](v)
    return to_array(t)


def materialise_kw(v):
    if isinstance(v, dict):
        if "np" in v:
            return getattr(np, v["np"])(v["value"])
        if "nd" in v:
            return to_array(v["nd"])
        if "tuple" in v:
            return tuple(materialise_kw(x) for x in v["tuple"])
    return v


def materialise(d):
    """-> (callable name, description, tensors, kwargs) with fresh arrays (ops may update in place)."""
    ts = [materialise_tensor(t) for t in d["tensors"]]
    kw = {k: materialise_kw(v) for k, v in d.get("kw", {}).items()}
    if d.get("graph"):
        kw["graph"] = True
    if d.get("backend"):
        kw["backend"] = d["backend"]
    return d["op"], d["desc"], ts, kw


def axes(rng, k, sizes=(1, 2, 2, 3, 3, 4, 5), names=NAMES):
    ns = rng.sample(names, k)
    return [(n, rng.choice(sizes)) for n in ns]


def group(rng, ax, p=0.3):
    out = []
    i = 0
    while i < len(ax):
        if rng.random() < p and i + 1 < len(ax):
            j = rng.randint(i + 2, min(len(ax), i + 3))
            out.append(ax[i:j])
            i = j
        else:
            out.append([ax[i]])
            i += 1
    return out


def gstr(groups, br=frozenset()):
    def one(a):
        return f"[{a[0]}]" if a[0] in br else a[0]

    return " ".join(one(g[0]) if len(g) == 1 else "(" + " ".join(one(a) for a in g) + ")" for g in groups)


def gshape(groups):
    return tuple(int(np.prod([s for _, s in g])) for g in groups)


def sizes_kw(rng, groups_list):
    kw = {}
    for groups in groups_list:
        for g in groups:
            if len(g) > 1:
                skip = rng.randrange(len(g))
                for i, (n, s) in enumerate(g):
                    if i != skip:
                        kw[n] = s
    return kw


def _d(op, desc, tensors, kw=None, axes=None):
    d = {"op": op, "desc": desc, "tensors": tensors, "kw": dict(kw or {}), "graph": False, "backend": None}
    if axes:
        d["_axes"] = {n: int(s) for n, s in axes}  # generator knowledge (named axes and their sizes); not passed to einx
    return d


def gen_call(rng, fam=None, names=NAMES):
    fam = fam or rng.choice(FAMILIES)
    kind = rng.choice(["int", "float"])
    if fam == "id":
        ax = axes(rng, rng.randint(1, 4), names=names)
        gi = group(rng, ax)
        out = ax[:]
        rng.shuffle(out)
        free = [n for n in names if n not in dict(ax)]
        if rng.random() < 0.3 and free:
            out.append((rng.choice(free), rng.choice([1, 2, 3])))
        go = group(rng, out)
        kw = sizes_kw(rng, [gi])
        kw.update({n: s for n, s in out if n not in dict(ax)})
        return _d("id", f"{gstr(gi)} -> {gstr(go)}", [mkdata(rng, gshape(gi), kind)], kw, axes=ax)
    if fam == "cseblock":
        # a composed axis holding a run of 2-4 unsized axes that keep their order wherever they occur: only the size of the run as a
        # whole is determinable, so the call is valid exactly if the common-subexpression step folds the whole run into one axis
        k = rng.randint(2, 4)
        ax = axes(rng, k + 2, sizes=(1, 2, 2, 3), names=names)
        (x, sx), (y, sy), run = ax[0], ax[-1], ax[1:-1]
        inner = " ".join(n for n, _ in run)
        pr = int(np.prod([s for _, s in run]))
        style = rng.choice(["swap", "split", "merge", "reduce", "elem"])
        kw = {x: sx, y: sy}
        if style == "swap":
            return _d("id", f"({x} {inner} {y}) -> ({y} {inner} {x})", [mkdata(rng, (sx * pr * sy,), kind)], kw, axes=ax)
        if style == "split":
            return _d("id", f"({x} {inner} {y}) -> {y} ({inner}) {x}", [mkdata(rng, (sx * pr * sy,), kind)], kw, axes=ax)
        if style == "merge":
            return _d("id", f"{y} ({x} {inner}) -> ({inner} {y}) {x}", [mkdata(rng, (sy, sx * pr), kind)], {x: sx}, axes=ax)
        if style == "reduce":
            return _d(rng.choice(["sum", "max", "min", "prod"]), f"{y} [({x} {inner})]" if rng.random() < 0.5 else f"({x} [{inner}]) {y}", [mkdata(rng, (sy, sx * pr) if True else None, kind)], {x: sx}, axes=ax)
        return _d(rng.choice(["add", "multiply", "maximum"]), f"({x} {inner}) {y}, {y} -> {y} ({x} {inner})", [mkdata(rng, (sx * pr, sy), kind), mkdata(rng, (sy,), kind)], {x: sx}, axes=ax)
    if fam == "nested":
        # nested compositions "(a (b c)) d" with a random subset of the sizes given: rearranged, re-nested or reduced
        ax = axes(rng, rng.randint(3, 6), sizes=(1, 2, 2, 3), names=names)

        def build(items, depth):
            out, i = [], 0
            while i < len(items):
                if depth < 2 and rng.random() < 0.45 and len(items) - i >= 2:
                    j = rng.randint(i + 2, min(len(items), i + 4))
                    out.append(build(items[i:j], depth + 1))
                    i = j
                else:
                    out.append(items[i])
                    i += 1
            return out

        def text(t):
            return " ".join("(" + text(e) + ")" if isinstance(e, list) else e[0] for e in t)

        def flat(t):
            return [a for e in t for a in (flat(e) if isinstance(e, list) else [e])]

        tree = build(ax, 0)
        shp = tuple(int(np.prod([sz for _, sz in flat(e)])) if isinstance(e, list) else e[1] for e in tree)
        kw = {n: sz for n, sz in ax if rng.random() < 0.5}
        mode = rng.choice(["perm", "renest", "reduce"])
        if mode == "perm":
            t2 = tree[:]
            rng.shuffle(t2)
            if rng.random() < 0.5 and len(t2) > 1:
                t2 = [t2]
            return _d("id", f"{text(tree)} -> {text(t2)}", [mkdata(rng, shp, kind)], kw, axes=ax)
        if mode == "renest":
            return _d("id", f"{text(tree)} -> {text(build(ax, 0))}", [mkdata(rng, shp, kind)], kw, axes=ax)
        k = rng.choice(ax)[0]
        return _d(rng.choice(["sum", "max", "min", "prod"]), text(tree).replace(k, f"[{k}]", 1), [mkdata(rng, shp, kind)], kw, axes=ax)
    if fam == "idcat":
        ax = axes(rng, rng.randint(1, 3), names=names)
        k = rng.randrange(len(ax))
        free = [n for n in names if n not in dict(ax)]
        if len(free) < 2:
            return gen_call(rng, "id", names)
        n1, n2 = free[:2]
        s1, s2 = rng.choice([1, 2, 3]), rng.choice([1, 2])
        a1 = ax[:k] + [(n1, s1)] + ax[k + 1:]
        a2 = ax[:k] + [(n2, s2)] + ax[k + 1:]
        outs = " ".join(n if i != k else f"({n1} + {n2})" for i, (n, _) in enumerate(ax))
        if rng.random() < 0.5:
            return _d("id", f"{' '.join(n for n, _ in a1)}, {' '.join(n for n, _ in a2)} -> {outs}",
                      [mkdata(rng, tuple(s for _, s in a1), kind), mkdata(rng, tuple(s for _, s in a2), kind)])
        shp = tuple(s if i != k else s1 + s2 for i, (_, s) in enumerate(ax))
        return _d("id", f"{outs} -> {' '.join(n for n, _ in a1)}, {' '.join(n for n, _ in a2)}", [mkdata(rng, shp, kind)], {n1: s1})
    if fam == "ell":
        ax = axes(rng, rng.randint(2, 4), names=names)
        k = rng.randint(1, len(ax) - 1)
        tail = ax[k:]
        d = f"... {' '.join(n for n, _ in tail)} -> {' '.join(n for n, _ in reversed(tail))} ..."
        if rng.random() < 0.5 and "b" not in dict(tail):
            d = f"b... ({' '.join(n for n, _ in tail)}) -> ({' '.join(n for n, _ in reversed(tail))}) b..."
        shp = tuple(s for _, s in ax[:k]) + (tuple(s for _, s in tail) if "(" not in d else (int(np.prod([s for _, s in tail])),))
        kw = {n: s for n, s in tail[1:]} if "(" in d else {}
        return _d("id", d, [mkdata(rng, shp, kind)], kw)
    if fam == "reduce":
        op = rng.choice(REDUCE)
        ax = axes(rng, rng.randint(1, 4), names=names)
        gi = group(rng, ax)
        br = frozenset(n for n, _ in ax if rng.random() < 0.5) or frozenset([ax[0][0]])
        keep = [a for a in ax if a[0] not in br]
        rng.shuffle(keep)
        style = rng.choice(["br", "br_out", "nobr_out"])
        k2 = "float" if op in ("mean", "var", "std", "logsumexp") else ("bool" if op in ("any", "all") else kind)
        x = mkdata(rng, gshape(gi), k2)
        kw = sizes_kw(rng, [gi])
        if style == "br":
            d = gstr(gi, br)
        elif style == "br_out":
            d = f"{gstr(gi, br)} -> {' '.join(n for n, _ in keep)}"
        else:
            d = f"{gstr(gi)} -> {' '.join(n for n, _ in keep)}"
        if rng.random() < 0.12:
            kw["keepdims"] = rng.random() < 0.7  # deprecated spelling of "a ([b])"
        return _d(op, d, [x], kw, axes=ax)
    if fam == "ellred":
        op = rng.choice(REDUCE + ["flip", "softmax"])
        ax = axes(rng, rng.randint(2, 4), names=names)
        k2 = "float" if op in ("mean", "var", "std", "logsumexp", "softmax") else ("bool" if op in ("any", "all") else kind)
        style = rng.choice(["a... [c]", "[a...] c", "a [b...]", "[a] b..."])
        kw = {}
        if rng.random() < 0.4:  # the sizes of an ellipsis axis as a sequence-valued keyword
            sizes = [s for _, s in ax]
            kw = {"a": sizes[:-1]} if style in ("a... [c]", "[a...] c") else {"b": sizes[1:]}
        return _d(op, style, [mkdata(rng, tuple(s for _, s in ax), k2)], kw)
    if fam == "dot3":
        ax = axes(rng, 5, sizes=(1, 2, 2, 3), names=names)
        (a, sa), (b, sb), (c, sc), (d_, sd), (e, se) = ax
        desc = f"{a} {b} {c}, {c} {d_}, {d_} {e} -> {a} {b} {e}" if rng.random() < 0.5 else f"{a} [{c}], [{c}] {d_}, {d_} {e} -> {a} {e}"
        if "[" in desc:
            return _d("dot", desc, [mkdata(rng, (sa, sc), kind), mkdata(rng, (sc, sd), kind), mkdata(rng, (sd, se), kind)], axes=ax)
        return _d("dot", desc, [mkdata(rng, (sa, sb, sc), kind), mkdata(rng, (sc, sd), kind), mkdata(rng, (sd, se), kind)], axes=ax)
    if fam == "get_at_multi":
        ax = axes(rng, 3, sizes=(2, 3, 4), names=names)
        (h, sh), (w, sw), (c, sc) = ax
        free = [n for n in names if n not in dict(ax)]
        p_, sp = free[0], rng.choice((1, 2, 3, 4))
        t = mkdata(rng, (sh, sw, sc), kind)
        ih = {"shape": [sp], "dtype": "int64", "data": [rng.randrange(sh) for _ in range(sp)]}
        iw = {"shape": [sp], "dtype": "int64", "data": [rng.randrange(sw) for _ in range(sp)]}
        if rng.random() < 0.5:
            return _d("get_at", f"[{h} {w}] {c}, {p_}, {p_} -> {p_} {c}", [t, ih, iw])
        op = rng.choice(["set_at", "add_at", "subtract_at"])
        return _d(op, f"[{h} {w}] {c}, {p_}, {p_}, {p_} {c} -> [{h} {w}] {c}", [t, ih, iw, mkdata(rng, (sp, sc), kind)])
    if fam == "elem":
        op = rng.choice(ELEM)
        ax = axes(rng, rng.randint(1, 4), names=names)
        nin = 3 if op == "where" else 2
        ins = []
        for i in range(nin):
            sub = [a for a in ax if rng.random() < 0.7] if i > 0 else ax[:]
            rng.shuffle(sub)
            ins.append(sub)
        out = ax[:]
        rng.shuffle(out)
        k2 = "bool" if op.startswith("logical") else ("float" if op in ("true_divide", "logaddexp", "divide") else kind)
        xs = [mkdata(rng, tuple(s for _, s in sub), "bool" if (op == "where" and i == 0) else k2) for i, sub in enumerate(ins)]
        d = ", ".join(" ".join(n for n, _ in sub) for sub in ins)
        if rng.random() < 0.7:
            d += " -> " + " ".join(n for n, _ in out)
        return _d(op, d, xs, axes=ax)
    if fam == "dot":
        ax = axes(rng, rng.randint(2, 5), names=names)
        role = {n: rng.choice("bclr") for n, _ in ax}
        if "c" not in role.values():
            role[ax[0][0]] = "c"
        l = [a for a in ax if role[a[0]] in "bcl"]
        r = [a for a in ax if role[a[0]] in "bcr"]
        o = [a for a in ax if role[a[0]] in "blr"]
        rng.shuffle(l)
        rng.shuffle(r)
        rng.shuffle(o)
        br = frozenset(n for n in role if role[n] == "c") if rng.random() < 0.5 else frozenset()
        d = f"{gstr([[a] for a in l], br)}, {gstr([[a] for a in r], br)} -> {' '.join(n for n, _ in o)}"
        return _d("dot", d, [mkdata(rng, tuple(s for _, s in l), kind), mkdata(rng, tuple(s for _, s in r), kind)], axes=ax)
    if fam in ("get_at", "update_at"):
        ax = axes(rng, rng.randint(1, 3), sizes=(2, 3, 4), names=names)
        nb = rng.randint(1, len(ax))
        br = frozenset(n for n, _ in ax[:nb])
        tl = ax[:]
        rng.shuffle(tl)
        free = [n for n in names if n not in dict(ax)]
        idxax = [(n, rng.choice((1, 2, 3, 4))) for n in rng.sample(free, min(len(free), rng.randint(1, 2)))]
        tshape = tuple(s for _, s in tl)
        t = mkdata(rng, tshape, kind)
        brsizes = [s for n, s in tl if n in br]
        ishape = tuple(s for _, s in idxax)
        ni = int(np.prod(ishape)) if ishape else 1
        coords = [[rng.randrange(s) for s in brsizes] for _ in range(ni)]
        ct = {"shape": list(ishape) + [len(brsizes)], "dtype": "int64", "data": [c for row in coords for c in row]}
        # index axes may be written as flattened groups without sizes for their parts ("(p q)": named cse.<k> internally) or as
        # unnamed axes ("3": named unnamed.<uuid4> internally) - both are derived names that must not influence the result
        style = rng.random()
        spare = [n for n in names if n not in dict(ax) and n not in dict(idxax)]
        shown = {}
        for n, s_ in idxax:
            if style < 0.3 and len(spare) >= 2:
                shown[n] = f"({spare.pop()} {spare.pop()})"
            elif 0.3 <= style < 0.42 and s_ > 1:
                shown[n] = str(s_)
            else:
                shown[n] = n
        cexpr = " ".join(shown[n] for n, _ in idxax) + f" [{len(brsizes)}]"
        fr = [a for a in tl if a[0] not in br]
        if fam == "get_at":
            o = idxax + fr
            rng.shuffle(o)
            return _d("get_at", f"{gstr([[a] for a in tl], br)}, {cexpr} -> {' '.join(shown.get(n, n) for n, _ in o)}", [t, ct])
        op = rng.choice(["set_at", "set_at", "add_at", "subtract_at"])
        u = idxax + [a for a in fr if rng.random() < 0.7]
        rng.shuffle(u)
        upd = mkdata(rng, tuple(s for _, s in u), kind)
        return _d(op, f"{gstr([[a] for a in tl], br)}, {cexpr}, {' '.join(shown.get(n, n) for n, _ in u)}", [t, ct, upd])
    if fam == "argfind":
        op = rng.choice(["argmax", "argmin"])
        ax = axes(rng, rng.randint(1, 4), names=names)
        br = frozenset(n for n, _ in ax if rng.random() < 0.5) or frozenset([ax[0][0]])
        d = gstr([[a] for a in ax], br)
        if len(br) == 1 and rng.random() < 0.5:
            d += " -> " + " ".join(n for n, _ in ax if n not in br)
        return _d(op, d, [mkdata(rng, tuple(s for _, s in ax), kind)], axes=ax)
    if fam == "pres":
        op = rng.choice(PRES)
        ax = axes(rng, rng.randint(1, 4), names=names)
        one = op in ("sort", "argsort")
        br = frozenset([rng.choice(ax)[0]]) if one else (frozenset(n for n, _ in ax if rng.random() < 0.5) or frozenset([ax[0][0]]))
        kw = {"shift": rng.randint(-3, 3)} if op == "roll" else {}
        if op == "roll" and len(br) > 1 and rng.random() < 0.5:
            kw = {"shift": {"tuple": [rng.randint(-2, 2) for _ in br]}}
        k2 = "float" if "softmax" in op else kind
        return _d(op, gstr([[a] for a in ax], br), [mkdata(rng, tuple(s for _, s in ax), k2)], kw, axes=ax)
    if fam == "allscalar":
        # every tensor argument is a Python / numpy scalar (such calls select numpy by the scalar rule)
        op = rng.choice(["add", "multiply", "subtract", "maximum", "less"])
        ty = lambda: rng.choice(["int", "float", "np.float32", "np.int64", "np.float64"])
        ts = [{"scalar": rng.randint(1, 5), "type": ty()} for _ in range(2)]
        return _d(op, rng.choice([", -> ", ", ", ",->"]), ts)
    if fam == "solve":
        op = rng.choice(["solve_axes", "solve_shapes", "matches"])
        ax = axes(rng, rng.randint(1, 4), names=names)
        gi = group(rng, ax)
        kw = sizes_kw(rng, [gi])
        sub = [a for a in ax if rng.random() < 0.6] or ax[:1]
        d = f"{gstr(gi)}, {' '.join(n for n, _ in sub)}"
        return _d(op, d, [mkdata(rng, gshape(gi), kind), mkdata(rng, tuple(s for _, s in sub), kind)], kw)
    raise ValueError(fam)


def corrupt(rng, call, kinds=None):
    d = {k: (list(v) if isinstance(v, list) else (dict(v) if isinstance(v, dict) else v)) for k, v in call.items()}
    c = rng.choice(kinds or ["dim", "dropaxis", "dupaxis", "bracket", "kwdel", "kwbad", "kwfrac", "kwneg", "tensor", "char", "oob"])
    desc = d["desc"]
    xs = d["tensors"]
    kw = d["kw"]
    if c == "dim" and xs and "shape" in xs[0] and len(xs[0]["shape"]) and xs[0]["shape"][0] > 0:
        a = to_array(xs[0])
        a = np.concatenate([a, a.take([0], axis=0)], axis=0)
        xs[0] = {"shape": list(a.shape), "dtype": xs[0]["dtype"], "data": a.reshape(-1).tolist()}
    elif c == "dropaxis":
        toks = desc.split(" ")
        toks.pop(rng.randrange(len(toks)))
        desc = " ".join(toks)
    elif c == "dupaxis":
        toks = desc.split(" ")
        toks.insert(rng.randrange(len(toks)), rng.choice(toks))
        desc = " ".join(toks)
    elif c == "bracket":
        i = rng.randrange(len(desc) + 1)
        desc = desc[:i] + rng.choice("[]()") + desc[i:]
    elif c == "kwdel" and kw:
        kw.pop(rng.choice(sorted(kw)))
    elif c == "kwbad" and kw and all(isinstance(v, int) for v in kw.values()):
        k = rng.choice(sorted(kw))
        kw[k] = kw[k] + 1
    elif c in ("kwfrac", "kwneg") and any(isinstance(v, int) and not isinstance(v, bool) for v in kw.values()):
        k = rng.choice(sorted(k for k, v in kw.items() if isinstance(v, int) and not isinstance(v, bool)))
        kw[k] = kw[k] + 0.5 if c == "kwfrac" else -kw[k] - (1 if kw[k] == 0 else 0)
    elif c == "tensor" and len(xs) > 1:
        xs.pop()
    elif c == "oob" and d["op"] in ("get_at", "set_at", "add_at", "subtract_at") and len(xs) > 1 and xs[1]["data"]:
        xs[1] = dict(xs[1], data=[99] + list(xs[1]["data"][1:]))  # run-time failure: index out of range
    else:
        i = rng.randrange(len(desc) + 1)
        desc = desc[:i] + rng.choice("|.-+,?") + desc[i:]
    d["desc"] = desc
    return d


def anonymise(rng, d):
    """Replace one named axis by an unnamed one where its size is known from the description's keywords
    (unnamed axes get uuid4-derived names inside einx).  The result need not be a valid call."""
    import re

    ks = [k for k, v in d["kw"].items() if isinstance(v, int) and not isinstance(v, bool) and k != "shift" and re.search(rf"\\b{k}\\b", d["desc"])]
    if not ks:
        return d
    k = rng.choice(sorted(ks))
    d = dict(d, desc=re.sub(rf"\\b{k}\\b", str(d["kw"][k]), d["desc"]), kw={a: b for a, b in d["kw"].items() if a != k})
    return d


def gen_adapter_call(rng, names=NAMES):
    """A call of one of the pool adapters (adapt_numpylike_reduce / adapt_numpylike_elementwise), or None."""
    name = rng.choice(ADAPTERS)
    if name.startswith("red"):
        d = gen_call(rng, "reduce", names)
        d["op"] = "adapt:" + name
        if "->" in d["desc"] and "[" not in d["desc"]:
            return None
        d["kw"].pop("keepdims", None)
        if name == "red_sum_scale" and rng.random() < 0.7:
            d["kw"]["scale"] = rng.choice([1, 2, 3, -1, -2, 0.0, -0.0, -1.0])
    else:
        d = gen_call(rng, "elem", names)
        d["op"] = "adapt:" + name
        d["tensors"] = d["tensors"][:2]
        d["desc"] = ", ".join(d["desc"].split(" -> ")[0].split(", ")[:2]) + ((" -> " + d["desc"].split(" -> ")[1]) if " -> " in d["desc"] else "")
        if name == "el_axpy" and rng.random() < 0.7:
            d["kw"]["alpha"] = rng.choice([1, 2, 3, -1, -2, 0.0, -0.0, -2.0])
    return d


def gen_corpus(rng, n, pbad=0.25, pgraph=0.15, names=NAMES, padapt=0.06):
    out = []
    while len(out) < n:
        c = gen_adapter_call(rng, names) if rng.random() < padapt else gen_call(rng, names=names)
        if c is None:
            continue
        if c.get("_axes") and rng.random() < 0.35:  # redundant (consistent) size keywords
            for n2 in rng.sample(sorted(c["_axes"]), min(len(c["_axes"]), rng.randint(1, 3))):
                c["kw"].setdefault(n2, c["_axes"][n2])
        if rng.random() < 0.15:
            c = anonymise(rng, c)
        if rng.random() < pbad:
            ints = sorted(k for k, v in c["kw"].items() if isinstance(v, int) and not isinstance(v, bool) and k != "shift")
            if len(ints) >= 2 and rng.random() < 0.3:
                # exactly two independent problems, both in size keywords and of different kinds (non-integral / negative / contradictory):
                # which one is reported must not depend on iteration order
                k1, k2 = rng.sample(ints, 2)
                kinds = rng.sample(["frac", "neg", "bad"], 2)
                c["kw"] = dict(c["kw"])
                for k, kind in zip((k1, k2), kinds):
                    v = c["kw"][k]
                    c["kw"][k] = v + 0.5 if kind == "frac" else (-v - (1 if v == 0 else 0) if kind == "neg" else v + 1)
            else:
                c = corrupt(rng, c)
                if rng.random() < 0.3:
                    c = corrupt(rng, c)
        if rng.random() < 0.08 and c.get("_axes") and c["op"] not in ("solve_axes", "solve_shapes", "matches"):
            # a tensor factory (three signature classes) in place of the first tensor; all sizes by keyword so the call stays determinable
            nd = [j for j, t in enumerate(c["tensors"]) if "shape" in t]
            if nd:
                c["tensors"][nd[0]] = {"factory": {"of": c["tensors"][nd[0]], "mode": "ok", "sig": rng.choice(["plain", "varkw", "name"])}}
                for n2, s2 in c["_axes"].items():
                    c["kw"].setdefault(n2, s2)
                if len(nd) == 1:
                    c["backend"] = "numpy"
        if rng.random() < pgraph and c["op"] not in ("solve_axes", "solve_shapes", "matches"):
            c["graph"] = True
        out.append(c)
    return out


def run_call(einx, d, override_tensors=None):
    """Execute descriptor d on module einx; returns the raw result (or raises)."""
    op, desc, ts, kw = materialise(d)
    if override_tensors is not None:
        ts = override_tensors
    return getattr(einx, op)(desc, *ts, **kw)


# ---- adapters and factories (used by C06 / C16 corpora; C13 / C15 have their own instrumented ones) ----
def _times(k):
    return lambda t, axis: np.asarray(np.sum(t, axis=axis) * k)  # one code object, one function per k (closures made by a factory)


def _plus(k):
    return lambda p, q: np.asarray(p + q + k)


def _pool():
    return {
        "red_times2": ("reduce", _times(2)),
        "red_times3": ("reduce", _times(3)),
        "el_plus1": ("elementwise", _plus(1)),
        "el_plus5": ("elementwise", _plus(5)),
        "red_sum_scale": ("reduce", lambda t, axis, *, scale=1: np.asarray(np.sum(t, axis=axis) * scale)),
        "red_max": ("reduce", lambda t, axis: np.asarray(np.max(t, axis=axis))),
        "el_axpy": ("elementwise", lambda p, q, *, alpha=1: np.asarray(p + alpha * q)),
        "el_mul": ("elementwise", lambda p, q: np.asarray(p * q)),
    }


def get_adapter(einx, name, state):
    key = "adapter:" + name
    if key not in state:
        kind, fn = _pool()[name]
        state[key] = (einx.numpy.adapt_numpylike_reduce if kind == "reduce" else einx.numpy.adapt_numpylike_elementwise)(fn)
    return state[key]


def make_factory(t):
    """tspec {"factory": {"of": tspec, "mode": ok|raise|wrongshape|wrongtype|scalar}} -> callable(shape)."""
    arr = to_array(t["factory"]["of"])
    mode = t["factory"].get("mode", "ok")

    def produce(shape):
        if mode == "raise":
            raise RuntimeError("factory failed (injected)")
        if mode == "wrongshape":
            return np.zeros(tuple(shape) + (2,), dtype=arr.dtype)
        if mode == "wrongtype":
            return arr.tolist()
        return arr.copy()

    def bump(a):
        """The value a factory returns shows whether it received the keywords it declares."""
        a = np.asarray(a)
        return a if a.dtype == bool or mode != "ok" else a + np.asarray(1, dtype=a.dtype)

    sig = t["factory"].get("sig", "plain")
    if sig in ("varkw", "wraps-varkw"):
        def factory(shape, **kw):
            r = produce(shape)
            return r if {"name", "arg_index", "signature"} <= set(kw) else bump(r)
    elif sig in ("name", "wraps-name"):
        def factory(shape, name=None):
            r = produce(shape)
            return r if name is not None else bump(r)
    else:
        def factory(shape):
            return produce(shape)

    if sig.startswith("wraps-"):
        return _passthrough(factory)  # every decorated factory shares the wrapper's code object; inspect.signature follows __wrapped__
    return factory


def _passthrough(fn):
    import functools

    @functools.wraps(fn)
    def wrapper(*args, **kwargs):
        return fn(*args, **kwargs)

    return wrapper



def execute(einx, d, state=None):
    """Execute descriptor d (incl. adapters, factories) -> raw result or raises."""
    state = {} if state is None else state
    ts = [make_factory(t) if "factory" in t else materialise_tensor(t) for t in d["tensors"]]
    kw = {k: materialise_kw(v) for k, v in d.get("kw", {}).items()}
    if d.get("graph"):
        kw["graph"] = True
    if d.get("backend"):
        kw["backend"] = d["backend"]
    if d["op"].startswith("adapt:"):
        return get_adapter(einx, d["op"][6:], state)(d["desc"], *ts, **kw)
    return getattr(einx, d["op"])(d["desc"], *ts, **kw)


def rename_axes(d, tag, names=NAMES):
    """Descriptor with every generator axis name n replaced by n+tag (run-unique names: no compile-cache
    entry of an earlier run in the same process can be hit, whatever the cache implementation)."""
    import re

    pat = re.compile(r"\b(" + "|".join(names) + r")\b")
    out = dict(d)
    out["desc"] = pat.sub(lambda m: m.group(1) + tag, d["desc"])
    out["kw"] = {(k + tag if k in names else k): v for k, v in d.get("kw", {}).items()}
    return out
