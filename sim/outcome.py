"""Outcome capture and comparison (DESIGN §2.5): values + shape + dtype | alpha-normalised code text |
exception class.  Outcomes are JSON-able so they can cross process boundaries and enter replay files."""
import ast
import contextlib
import hashlib
import io

import numpy as np

RTOL, ATOL = 1e-9, 1e-12


def alpha_normalise(code):
    """Rename locally bound names (arguments, assignment targets) in order of first binding."""
    try:
        tree = ast.parse(code)
    except SyntaxError:
        return code
    mapping = {}

    def bind(name):
        if name not in mapping:
            mapping[name] = f"v{len(mapping)}"

    class Binder(ast.NodeVisitor):
        def visit_FunctionDef(self, node):
            for a in node.args.posonlyargs + node.args.args + node.args.kwonlyargs:
                bind(a.arg)
            if node.args.vararg:
                bind(node.args.vararg.arg)
            if node.args.kwarg:
                bind(node.args.kwarg.arg)
            self.generic_visit(node)

        def visit_Name(self, node):
            if isinstance(node.ctx, ast.Store):
                bind(node.id)

        def visit_Lambda(self, node):
            for a in node.args.args:
                bind(a.arg)
            self.generic_visit(node)

    Binder().visit(tree)

    class Renamer(ast.NodeTransformer):
        def visit_Name(self, node):
            if node.id in mapping:
                node.id = mapping[node.id]
            return node

        def visit_arg(self, node):
            if node.arg in mapping:
                node.arg = mapping[node.arg]
            return node

    return ast.unparse(Renamer().visit(tree))


def _arr(a):
    a = np.asarray(a)
    if a.dtype == object:
        return {"shape": list(a.shape), "dtype": "object", "data": [repr(x) for x in a.reshape(-1).tolist()]}
    return {"shape": list(a.shape), "dtype": str(a.dtype), "data": a.reshape(-1).tolist()}


def encode(r):
    if isinstance(r, str):
        return {"kind": "code", "text": r, "norm": alpha_normalise(r)}
    if isinstance(r, bool):
        return {"kind": "py", "value": r}
    if isinstance(r, dict):  # solve_axes
        return {"kind": "map", "items": {str(k): _arr(v) for k, v in sorted(r.items())}}
    if isinstance(r, tuple | list):
        if all(isinstance(x, tuple) and all(isinstance(y, int) for y in x) for x in r):  # solve_shapes
            return {"kind": "py", "value": [list(x) for x in r]}
        return {"kind": "val", "arrays": [_arr(a) for a in r]}
    return {"kind": "val", "arrays": [_arr(r)]}


def capture(f):
    """Run f(); classify.  stdout (the retrace warning) is captured and ignored."""
    buf = io.StringIO()
    try:
        with contextlib.redirect_stdout(buf):
            r = f()
        return encode(r)
    except Exception as e:
        t = type(e)
        return {"kind": "exc", "cls": f"{t.__module__}.{t.__qualname__}"}


def _same_arr(a, b, exact):
    if a["shape"] != b["shape"] or a["dtype"] != b["dtype"]:
        return False
    if exact or not a["dtype"].startswith(("float", "complex")):
        x = np.array(a["data"], dtype=a["dtype"] if a["dtype"] != "object" else object)
        y = np.array(b["data"], dtype=b["dtype"] if b["dtype"] != "object" else object)
        if a["dtype"].startswith(("float", "complex")):
            return bool(np.array_equal(x, y, equal_nan=True))
        return a["data"] == b["data"]
    x = np.array(a["data"], dtype=a["dtype"])
    y = np.array(b["data"], dtype=b["dtype"])
    return bool(np.allclose(x, y, rtol=RTOL, atol=ATOL, equal_nan=True))


def same(a, b, exact=False, code="norm"):
    """exact: bit-identical values required (integer / boolean data, data-moving operations).
    code: 'norm' compare alpha-normalised text, 'text' compare verbatim, 'none' ignore text."""
    if a["kind"] != b["kind"]:
        return False
    k = a["kind"]
    if k == "exc":
        return a["cls"] == b["cls"]
    if k == "code":
        return True if code == "none" else (a["norm"] == b["norm"] if code == "norm" else a["text"] == b["text"])
    if k == "py":
        return a["value"] == b["value"]
    if k == "map":
        return sorted(a["items"]) == sorted(b["items"]) and all(_same_arr(a["items"][n], b["items"][n], True) for n in a["items"])
    return len(a["arrays"]) == len(b["arrays"]) and all(_same_arr(x, y, exact) for x, y in zip(a["arrays"], b["arrays"]))


def short(o):
    if o is None:
        return None
    k = o["kind"]
    if k == "exc":
        return ["exc", o["cls"]]
    if k == "code":
        return ["code", hashlib.sha1(o["norm"].encode()).hexdigest()[:10]]
    if k == "py":
        return ["py", o["value"]]
    if k == "map":
        return ["map", {n: [v["shape"], v["data"][:6]] for n, v in o["items"].items()}]
    return ["val"] + [[x["shape"], x["dtype"], hashlib.sha1(repr(x["data"]).encode()).hexdigest()[:10]] for x in o["arrays"]]


def digest(o):
    return hashlib.sha1(repr(short(o)).encode()).hexdigest()[:12]
