"""Driver side: worker processes, chunked distribution of run indices, wall-clock kills,
aggregation.  Exit codes (DESIGN §2.9): 0 held, 1 violation, 2 harness error."""
import json
import os
import queue
import select
import signal
import subprocess
import sys
import threading
import time

VERIF = os.path.dirname(os.path.dirname(os.path.abspath(__file__)))
PY = sys.executable
REPO = os.environ.get("VERIF_REPO", "/repo")


class HarnessError(Exception):
    pass


def base_env(hashseed=0, cache_size=None, warn_on_retrace=None, extra=None):
    env = {k: v for k, v in os.environ.items() if not k.startswith(("EINX_", "PYTHONHASHSEED"))}
    env["PYTHONHASHSEED"] = str(hashseed)
    env["OPENBLAS_NUM_THREADS"] = "1"
    env["OMP_NUM_THREADS"] = "1"
    env["MKL_NUM_THREADS"] = "1"
    env["PYTHONPATH"] = REPO + os.pathsep + VERIF
    env["PYTHONDONTWRITEBYTECODE"] = "1"
    env["EINX_VERIF_SIM"] = "1"
    env["VERIF_REPO"] = REPO
    if cache_size is not None:
        env["EINX_CACHE_SIZE"] = str(cache_size)
    if warn_on_retrace is not None:
        env["EINX_WARN_ON_RETRACE"] = str(warn_on_retrace)
    if extra:
        env.update({k: str(v) for k, v in extra.items()})
    return env


class WorkerProc:
    def __init__(self, module, env, cfg, log_path=None, init_timeout=120):
        self.module = module
        self.env = env
        self.cfg = cfg
        self.log_path = log_path
        self.log = open(log_path, "ab") if log_path else subprocess.DEVNULL
        self.p = subprocess.Popen(
            [PY, os.path.join(VERIF, "sim", "worker.py"), module],
            stdin=subprocess.PIPE,
            stdout=subprocess.PIPE,
            stderr=self.log,
            env=env,
            cwd=VERIF,
        )
        self.buf = b""
        self.info = None
        r = list(self.request({"cmd": "init", "cfg": cfg}, timeout=init_timeout))
        if not r or not r[0].get("ready"):
            self.kill()
            raise HarnessError(f"worker for {module} failed to initialise: {r}")
        self.info = r[0].get("info")

    def _readline(self, deadline):
        fd = self.p.stdout.fileno()
        while b"\n" not in self.buf:
            left = deadline - time.monotonic()
            if left <= 0:
                raise TimeoutError()
            r, _, _ = select.select([fd], [], [], min(left, 5.0))
            if r:
                chunk = os.read(fd, 1 << 16)
                if not chunk:
                    raise EOFError("worker closed its pipe")
                self.buf += chunk
        line, self.buf = self.buf.split(b"\n", 1)
        return line

    def request(self, msg, timeout):
        """Send one command, yield result objects until the worker says done.  `timeout` is the
        wall budget for the whole command; on expiry the worker is killed (by PID)."""
        if msg.get("cmd") == "init":
            pass
        self.p.stdin.write((json.dumps(msg) + "\n").encode())
        self.p.stdin.flush()
        deadline = time.monotonic() + timeout
        while True:
            try:
                line = self._readline(deadline)
            except (TimeoutError, EOFError) as e:
                self.kill()
                raise HarnessError(f"worker {'timed out' if isinstance(e, TimeoutError) else 'died'} on {msg.get('cmd')}") from e
            obj = json.loads(line)
            if obj.get("done"):
                return
            yield obj
            if msg.get("cmd") == "init":
                return

    def close(self):
        try:
            if self.p.poll() is None:
                self.p.stdin.write(b'{"cmd":"quit"}\n')
                self.p.stdin.flush()
                self.p.stdin.close()
                self.p.wait(timeout=10)
        except Exception:
            self.kill()
        finally:
            if self.log is not subprocess.DEVNULL:
                self.log.close()

    def kill(self):
        try:
            os.kill(self.p.pid, signal.SIGKILL)
        except ProcessLookupError:
            pass
        try:
            self.p.wait(timeout=10)
        except Exception:
            pass


def env_for(spec, extra=None):
    return base_env(hashseed=spec.get("hashseed", 0), cache_size=spec.get("cache_size"), warn_on_retrace=spec.get("warn"), extra=extra)


def run_batch(module, groups, master, cfg, n_workers=16, chunk=25, wall_per_chunk=300.0,
              recycle_after=None, on_result=None, log_dir=None, deadline=None):
    """groups = [{"env": {hashseed, cache_size, warn}, "indices": [...]}, ...].  The environment of a
    run is a function of its index (through its group), never of the worker that happens to execute
    it, so the worker count cannot influence any run.  Work is handed out in chunks; a chunk whose
    worker is killed is re-queued once.  Returns (results sorted by index, harness_errors, skipped)."""
    q = queue.Queue()
    nchunks = 0
    for g in groups:
        idx = list(g["indices"])
        for k in range(0, len(idx), chunk):
            q.put((g["env"], idx[k:k + chunk], 0))
            nchunks += 1
    results = {}
    errors = []
    skipped = []
    lock = threading.Lock()

    def handler(wno):
        w = None
        wenv = None
        done_in_worker = 0
        while True:
            try:
                spec, c, attempt = q.get_nowait()
            except queue.Empty:
                break
            if deadline is not None and time.monotonic() > deadline:
                with lock:
                    skipped.extend(c)
                continue
            try:
                if w is None or wenv != spec or (recycle_after and done_in_worker >= recycle_after):
                    if w is not None:
                        w.close()
                        w = None
                    wcfg = dict(cfg)
                    wcfg["env"] = spec
                    w = WorkerProc(module, env_for(spec), wcfg, log_path=os.path.join(log_dir, f"worker{wno}.log") if log_dir else None)
                    wenv = spec
                    done_in_worker = 0
                got = set()
                for obj in w.request({"cmd": "run", "indices": c, "master": master, "wall_per_run": cfg.get("wall_per_run")}, timeout=wall_per_chunk):
                    if "harness_error" in obj:
                        with lock:
                            errors.append(obj)
                        continue
                    with lock:
                        results[obj["i"]] = obj
                    got.add(obj["i"])
                    if on_result:
                        on_result(obj)
                done_in_worker += len(c)
                missing = [i for i in c if i not in got]
                if missing:
                    raise HarnessError(f"worker returned no result for {missing[:5]}")
            except HarnessError as e:
                if w is not None:
                    w.kill()
                    w = None
                rest = [i for i in c if i not in results]
                if attempt == 0 and rest:
                    q.put((spec, rest, 1))
                else:
                    with lock:
                        errors.append({"harness_error": str(e), "indices": rest[:10]})
        if w is not None:
            w.close()

    threads = [threading.Thread(target=handler, args=(k,), daemon=True) for k in range(min(n_workers, max(1, nchunks)))]
    for t in threads:
        t.start()
    for t in threads:
        t.join()
    return [results[i] for i in sorted(results)], errors, skipped


def one_shot(module, spec, cfg, msg, timeout=600, log_path=None):
    """Fresh worker under environment `spec`, one command, results as list."""
    wcfg = dict(cfg)
    wcfg["env"] = spec
    w = WorkerProc(module, env_for(spec), wcfg, log_path=log_path)
    try:
        return list(w.request(msg, timeout=timeout))
    finally:
        w.close()
