"""ddmin over operation / fault / context-switch lists (DESIGN §2.8)."""


def ddmin(items, still_fails, budget=300):
    """Smallest sub-list (order kept) found within `budget` test executions for which
    still_fails(sub) is True.  still_fails(items) is assumed True."""
    items = list(items)
    calls = [0]

    def test(sub):
        calls[0] += 1
        try:
            return bool(still_fails(sub))
        except Exception:
            return False

    n = 2
    while len(items) >= 2 and calls[0] < budget:
        size = max(1, len(items) // n)
        chunks = [items[k:k + size] for k in range(0, len(items), size)]
        reduced = False
        for k in range(len(chunks)):
            comp = [x for j, ch in enumerate(chunks) if j != k for x in ch]
            if comp and calls[0] < budget and test(comp):
                items = comp
                n = max(n - 1, 2)
                reduced = True
                break
        if not reduced:
            if size == 1:
                break
            n = min(len(items), n * 2)
    # final one-at-a-time pass
    k = 0
    while k < len(items) and len(items) > 1 and calls[0] < budget:
        cand = items[:k] + items[k + 1:]
        if test(cand):
            items = cand
        else:
            k += 1
    return items


def shrink_fields(case, fields, make, still_fails, budget=300):
    """Apply ddmin to several list-valued fields of a case in turn.  make(case, field, sub) returns
    the candidate case (lets the check repair cross-references)."""
    for f in fields:
        if not case.get(f):
            continue

        def t(sub, f=f):
            return still_fails(make(case, f, sub))

        sub = ddmin(case[f], t, budget=budget)
        case = make(case, f, sub)
    return case
