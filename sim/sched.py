"""Baton-passing thread scheduler on sys.settrace line (optionally opcode) events (DESIGN §2.3, App. A).

Workers are real threading.Threads; exactly one of them is unparked at any time and the policy (a
seeded PRNG or a recorded schedule) chooses who.  A pre-emption point is every `line` event in a
pre-emption file (every file under einx/ except util/solver.py), every operation boundary and
every simulated-lock operation.  Per-thread step indices identify switch points, so a recorded
schedule is a list of (thread, step) -> next thread and replays exactly.
"""
import _thread
import os
import sys
import threading

from . import seams


class DeadlockAbort(BaseException):
    pass


class StepCapAbort(BaseException):
    pass


class RandomPolicy:
    """Switch with probability p at every step (x bias inside hot functions), 0.5 at op boundaries."""

    def __init__(self, rng, p, bias=5.0, p_boundary=0.5):
        self.rng = rng
        self.p = p
        self.p_hot = min(1.0, p * bias)
        self.p_boundary = p_boundary

    def want(self, thread, step, hot, boundary):
        r = self.rng.random()
        return r < (self.p_boundary if boundary else (self.p_hot if hot else self.p))

    def choose(self, cands, thread, step, forced):
        return self.rng.choice(cands)


class PCTPolicy:
    """d forced switches at seeded per-thread step indices (PCT-style), plus op boundaries."""

    def __init__(self, rng, points, p_boundary=0.3):
        self.rng = rng
        self.points = set(tuple(p) for p in points)
        self.p_boundary = p_boundary

    def want(self, thread, step, hot, boundary):
        if boundary:
            return self.rng.random() < self.p_boundary
        return (thread, step) in self.points

    def choose(self, cands, thread, step, forced):
        return self.rng.choice(cands)


class ReplayPolicy:
    """Replays a recorded list of switches [thread, step, next]; anything not listed: no voluntary
    switch, forced choices fall back to the first runnable thread in name order."""

    def __init__(self, switches):
        self.map = {}
        for s in switches:
            self.map.setdefault((s[0], s[1]), []).append(s[2])
        self.used = 0

    def want(self, thread, step, hot, boundary):
        return (thread, step) in self.map and len(self.map[(thread, step)]) > 0

    def choose(self, cands, thread, step, forced):
        lst = self.map.get((thread, step))
        if lst:
            nxt = lst.pop(0)
            self.used += 1
            if nxt in cands:
                return nxt
        if not forced and thread in cands:
            return thread
        return cands[0]


class Stall:
    """Targeted search for non-re-entrant scratch state: the first thread that executes its k-th line in `file` is parked there
    (inside whatever function it is in) until another thread has entered the same function and run m more lines - or until nothing
    else can run.  The parked thread is an ordinary timed waiter for the scheduler, so a recorded schedule replays without it."""

    def __init__(self, file, k, m):
        self.file = file
        self.k = k
        self.m = m
        self.state = 0  # 0 armed, 1 a thread is parked, 2 done
        self.count = {}
        self.who = None
        self.code = None
        self.seen = False
        self.after = 0
        self.token = type("StallToken", (), {"_sim_name": "stall"})()


class Scheduler:
    def __init__(self, policy, preempt_prefix, exclude=("util/solver.py",), hot=("frontend/backend.py", "tracer/graph.py", "util/lru_cache.py", "frontend/api.py"),
                 opcode_files=(), step_cap=2_000_000, extra_files=()):
        self.policy = policy
        self.prefix = preempt_prefix
        self.exclude = tuple(exclude)
        self.hot = tuple(hot)
        self.opcode_files = tuple(opcode_files)
        self.extra_files = tuple(extra_files)
        self.step_cap = step_cap
        self.cv = seams._ORIG_CONDITION(_thread.allocate_lock())  # the scheduler itself must never use a simulated primitive
        self.turn = None
        self.alive = set()
        self.blocked = {}  # thread name -> lock / event
        self.timed = set()  # blocked threads whose wait has a timeout
        self.timedout = set()
        self.held = {}  # id(lock) -> (lock, thread name)
        self.ident = {}
        self.steps = {}
        self.seq = 0  # global event sequence number (invoke / return stamps)
        self.switches = []  # [from, step, to, where]
        self.events = []
        self.deadlock = None
        self.aborted = None
        self.total_steps = 0
        self.stats = {"F-preempt": 0, "F-preempt-hot": 0, "F-lock-block": 0, "boundary_switches": 0}
        self.preempt_where = {}
        self._code_cache = {}
        self.stall = None

    # ---- classification of code objects ---------------------------------------------------------
    def _classify(self, code):
        c = self._code_cache.get(code)
        if c is None:
            fn = code.co_filename
            if fn.startswith(self.prefix) and not fn.endswith(self.exclude):
                rel = fn[len(self.prefix):]
                c = 2 if rel.endswith(self.hot) else 1
                if self.opcode_files and rel.endswith(self.opcode_files):
                    c += 2  # 3 / 4: opcode granularity
            elif self.extra_files and fn.endswith(self.extra_files):
                c = 1
            else:
                c = 0
            self._code_cache[code] = c
        return c

    # ---- trace functions ---------------------------------------------------------------------------
    def _global(self, frame, event, arg):
        c = self._classify(frame.f_code)
        if c == 0:
            return None
        if c >= 3:
            frame.f_trace_opcodes = True
        return self._local_hot if c in (2, 4) else self._local

    def _local(self, frame, event, arg):
        if event == "line" or event == "opcode":
            self._step(frame, False)
        return self._local

    def _local_hot(self, frame, event, arg):
        if event == "line" or event == "opcode":
            self._step(frame, True)
        return self._local_hot

    def _step(self, frame, hot):
        me = self.ident[_thread.get_ident()]
        n = self.steps[me] = self.steps[me] + 1
        self.total_steps += 1
        if self.total_steps > self.step_cap:
            self._abort("step-cap")
        if self.aborted:
            raise DeadlockAbort() if self.aborted == "deadlock" else StepCapAbort()
        sp = self.stall
        if sp is not None and sp.state < 2:
            if sp.state == 0:
                if frame.f_code.co_filename.endswith(sp.file):
                    c = sp.count[me] = sp.count.get(me, 0) + 1
                    if c == sp.k and self.runnable(exclude=me):
                        sp.state, sp.who, sp.code = 1, me, frame.f_code
                        self.stats["stalls"] = self.stats.get("stalls", 0) + 1
                        self.block_on(sp.token, timed=True)
                        sp.state = 2
                        return
            elif me != sp.who:
                if frame.f_code is sp.code:
                    if not sp.seen:
                        self.stats["stall_other_thread_entered_same_function"] = self.stats.get("stall_other_thread_entered_same_function", 0) + 1
                    sp.seen = True
                elif sp.seen:
                    sp.after += 1
                    if sp.after >= sp.m:
                        sp.state = 2
                        self.lock_released(sp.token)
        if self.policy.want(me, n, hot, False):
            self._yield(me, n, False, frame, hot)

    # ---- baton -------------------------------------------------------------------------------------
    def runnable(self, exclude=None):
        return sorted(n for n in self.alive if n not in self.blocked and n != exclude)

    def _yield(self, me, step, forced, frame=None, hot=False, boundary=False):
        with self.cv:
            cands = self.runnable(exclude=me)
            if not forced:
                cands = sorted(cands + [me])
            if not cands:
                timed = sorted(t for t in self.blocked if t in self.timed)
                if timed:  # virtual time jumps to the earliest timer: that waiter times out
                    t = timed[0]
                    del self.blocked[t]
                    self.timedout.add(t)
                    self.stats["timeouts_fired"] = self.stats.get("timeouts_fired", 0) + 1
                    cands = [t]
                else:
                    self.deadlock = {"blocked": {t: self._lock_name(l) for t, l in sorted(self.blocked.items())},
                                     "held": sorted((self._lock_name(l), t) for l, t in self.held.values())}
                    self._abort_locked("deadlock")
                    raise DeadlockAbort()
            nxt = self.policy.choose(cands, me, step, forced)
            if nxt == me:
                return
            where = None
            if frame is not None:
                where = f"{frame.f_code.co_filename[len(self.prefix):] if frame.f_code.co_filename.startswith(self.prefix) else os.path.basename(frame.f_code.co_filename)}:{frame.f_lineno}:{frame.f_code.co_name}"
                self.stats["F-preempt"] += 1
                if hot:
                    self.stats["F-preempt-hot"] += 1
                    key = frame.f_code.co_name
                    self.preempt_where[key] = self.preempt_where.get(key, 0) + 1
            elif boundary:
                self.stats["boundary_switches"] += 1
            self.switches.append([me, step, nxt, where or ("boundary" if boundary else "forced")])
            self.turn = nxt
            self.cv.notify_all()
            while self.turn != me:
                self.cv.wait()
                if self.aborted:
                    raise DeadlockAbort() if self.aborted == "deadlock" else StepCapAbort()

    def _abort(self, why):
        with self.cv:
            self._abort_locked(why)

    def _abort_locked(self, why):
        if not self.aborted:
            self.aborted = why
        # force-release every simulated lock held by a worker so the process stays usable
        for lock, t in list(self.held.values()):
            try:
                lock._owner = None
                lock._count = 0
                if lock._real.locked():
                    lock._real.release()
            except Exception:
                pass
        self.held.clear()
        self.blocked.clear()
        self.turn = None
        self.cv.notify_all()

    def _lock_name(self, lock):
        return getattr(lock, "_sim_name", type(lock).__name__)

    # ---- SimLock interface ------------------------------------------------------------------------
    def is_worker(self):
        return _thread.get_ident() in self.ident

    def block_on(self, lock, timed=False):
        """Park the calling worker until `lock` is released / set.  Returns True if a timed wait ended
        by its (virtual) timeout: that happens exactly when no other thread can run."""
        me = self.ident[_thread.get_ident()]
        self.blocked[me] = lock
        if timed:
            self.timed.add(me)
        self.stats["F-lock-block"] += 1
        self._yield(me, self.steps[me], True)
        self.timed.discard(me)
        if me in self.timedout:
            self.timedout.discard(me)
            return True
        return False

    def note_lock_acquired(self, lock):
        me = self.ident.get(_thread.get_ident())
        self.held[id(lock)] = (lock, me)

    def lock_released(self, lock):
        self.held.pop(id(lock), None)
        for n, l in list(self.blocked.items()):
            if l is lock:
                del self.blocked[n]

    # ---- op boundaries and event stamps -----------------------------------------------------------
    def boundary(self):
        """Called by a worker between two operations of its program (tracing is off here)."""
        me = self.ident[_thread.get_ident()]
        if self.aborted:
            raise DeadlockAbort() if self.aborted == "deadlock" else StepCapAbort()
        n = self.steps[me] = self.steps[me] + 1
        if self.policy.want(me, n, False, True):
            self._yield(me, n, False, boundary=True)

    def stamp(self):
        self.seq += 1
        return self.seq

    # ---- running ---------------------------------------------------------------------------------
    def run(self, programs, first=None):
        """programs: list of lists of callables op() -> outcome (exceptions are the caller's business:
        an op must catch what it wants to record).  Returns events [(thread, idx, inv, ret, outcome)]."""
        names = [f"T{i}" for i in range(len(programs))]
        self.alive = set(names)
        self.steps = {n: 0 for n in names}
        threads = []
        crashed = []

        def body(name, prog):
            self.ident[_thread.get_ident()] = name
            try:
                with self.cv:
                    while self.turn != name:
                        self.cv.wait()
                        if self.aborted:
                            return
                for idx, op in enumerate(prog):
                    self.boundary()
                    inv = self.stamp()
                    sys.settrace(self._global)
                    try:
                        out = op()
                    finally:
                        sys.settrace(None)
                    ret = self.stamp()
                    self.events.append({"thread": name, "idx": idx, "inv": inv, "ret": ret, "out": out})
            except (DeadlockAbort, StepCapAbort):
                pass
            except BaseException as e:  # harness bug
                crashed.append(f"{name}: {type(e).__name__}: {e}")
            finally:
                sys.settrace(None)
                with self.cv:
                    self.alive.discard(name)
                    self.blocked.pop(name, None)
                    if not self.aborted:
                        r = self.runnable()
                        if r:
                            nxt = self.policy.choose(r, name, self.steps[name] + 1, True)
                            self.switches.append([name, self.steps[name] + 1, nxt, "end"])
                            self.turn = nxt
                        elif self.alive and any(t in self.timed for t in self.blocked):
                            t = sorted(t for t in self.blocked if t in self.timed)[0]  # a timed wait times out in virtual time
                            del self.blocked[t]
                            self.timedout.add(t)
                            self.stats["timeouts_fired"] = self.stats.get("timeouts_fired", 0) + 1
                            self.switches.append([name, self.steps[name] + 1, t, "end"])
                            self.turn = t
                        elif self.alive:
                            self.deadlock = {"blocked": {t: self._lock_name(l) for t, l in sorted(self.blocked.items())},
                                             "held": sorted((self._lock_name(l), t) for l, t in self.held.values())}
                            self._abort_locked("deadlock")
                    self.cv.notify_all()

        prev = seams.SCHED[0]
        for n, p in zip(names, programs):
            t = threading.Thread(target=body, args=(n, p), name=n, daemon=True)
            threads.append(t)
            t.start()
        seams.SCHED[0] = self
        seams.patch_locks()  # locks created while simulating are simulated too
        try:
            with self.cv:
                start = first if first in names else self.policy.choose(list(names), "main", 0, True)
                self.switches.append(["main", 0, start, "start"])
                self.turn = start
                self.cv.notify_all()
            for t in threads:
                t.join()
        finally:
            seams.unpatch_locks()
            seams.SCHED[0] = prev
        if crashed:
            raise RuntimeError("harness thread crashed: " + "; ".join(crashed))
        return self.events
