"""Reference interpreter: a process that imports einx and has never called it.

  oneshot : read one JSON request {"items": [{"d": descriptor, "ctx": [backend names]}], "uuid_seed", "noise"} from stdin, execute
            the items in order in this process, print {"outcomes": [...]}.
  zygote  : import einx (optionally warm sympy through einx's solver on dummy equations - no einx API state is touched), then for
            every request line {"id", "d", "ctx", "uuid_seed", "noise"} fork a child that executes the one descriptor and
            answer {"id", "outcome"}.  The parent never calls einx.
"""
import contextlib
import json
import os
import sys


def _setup():
    verif = os.path.dirname(os.path.dirname(os.path.abspath(__file__)))
    if verif not in sys.path:
        sys.path.insert(0, verif)
    from sim import seams

    einx = seams.bootstrap(warmup=False, sim_locks=False)
    return einx, seams


def _noise(n):
    junk = [object() for _ in range(n % 977)]
    return [bytearray(64 + (n % 13)) for _ in range(n % 31)], junk


def run_item(einx, seams, item, state=None):
    from sim import outcome, workload

    seams.seed_uuid(item.get("uuid_seed", 0))
    keep = _noise(item.get("noise", 0))
    with contextlib.ExitStack() as es:
        for n in item.get("ctx", []):
            es.enter_context(einx.backend.get(n))
        out = outcome.capture(lambda: workload.execute(einx, item["d"], state))
    del keep
    return out


def oneshot():
    einx, seams = _setup()
    req = json.load(sys.stdin)
    outs = []
    state = {}
    for it in req["items"]:
        it = dict(it)
        it.setdefault("uuid_seed", req.get("uuid_seed", 0))
        it.setdefault("noise", req.get("noise", 0))
        outs.append(run_item(einx, seams, it, state))
    json.dump({"outcomes": outs}, sys.stdout)


def zygote():
    out = os.fdopen(os.dup(1), "w", buffering=1)
    os.dup2(2, 1)
    einx, seams = _setup()
    if os.environ.get("VERIF_ZYGOTE_WARM_SYMPY", "1") == "1":
        from einx._src.util import solver

        a, b = solver.Variable("wz_a", "wz_a"), solver.Variable("wz_b", "wz_b")
        try:
            solver.solve([(a * b, 6), (a, 2)])
            solver.solve([(a + b, 5), (a * 2, b + 1)])
        except Exception:
            pass
    out.write(json.dumps({"ready": True, "pid": os.getpid()}) + "\n")
    for line in sys.stdin:
        line = line.strip()
        if not line:
            continue
        req = json.loads(line)
        if req.get("cmd") == "quit":
            break
        r, w = os.pipe()
        pid = os.fork()
        if pid == 0:
            try:
                os.close(r)
                res = run_item(einx, seams, req)
                os.write(w, json.dumps(res).encode())
            except BaseException as e:
                os.write(w, json.dumps({"kind": "harness_error", "msg": f"{type(e).__name__}: {e}"}).encode())
            finally:
                os._exit(0)
        os.close(w)
        data = b""
        while True:
            ch = os.read(r, 1 << 20)
            if not ch:
                break
            data += ch
        os.close(r)
        os.waitpid(pid, 0)
        try:
            res = json.loads(data)
        except Exception:
            res = {"kind": "harness_error", "msg": "child died without an answer"}
        out.write(json.dumps({"id": req.get("id"), "outcome": res}) + "\n")
    out.close()


if __name__ == "__main__":
    (zygote if sys.argv[1:] == ["zygote"] else oneshot)()
