"""Deterministic-simulation core for the einx checks (see /verif/DESIGN.md §2)."""
