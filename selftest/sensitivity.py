"""Sensitivity self-test (DESIGN §2.7): the checks must be able to fail.

Each mutant is a small realistic edit (string replacement) applied to a scratch worktree of /repo
under /tmp; the corresponding quick check is run with VERIF_REPO pointing at the worktree and must
exit 1.  With --tests the 85-test baseline is run on the mutant as well (it must still pass -
otherwise the mutant is not interesting).  Not part of MANIFEST commands (it copies the repo).

usage: sensitivity.py [--tests] [--only ID[,ID]] [--mutant NAME]
"""
import json
import os
import subprocess
import sys
import time

VERIF = os.path.dirname(os.path.dirname(os.path.abspath(__file__)))
B = "einx/_src/frontend/backend.py"
MUTANTS = [
    # ---- C10 -------------------------------------------------------------------------------------
    ("C10", "get-without-lock", B, "        with self.use_lock:\n            self.state, backend = self.state.get(backend, tensors)\n            return backend",
     "        self.state, backend = self.state.get(backend, tensors)\n        return backend"),
    ("C10", "enter-without-lock", B, "    def enter(self, backend):\n        with self.use_lock:\n            self.state = self.state.enter(backend)",
     "    def enter(self, backend):\n        self.state = self.state.enter(backend)"),
    ("C10", "register-without-lock", B, "    def register(self, backend):\n        with self.use_lock:\n            self.state = self.state.register(backend)",
     "    def register(self, backend):\n        self.state = self.state.register(backend)"),
    ("C10", "sysmodules-live-iteration", B, "        module_names = list(sys.modules)  # Snapshot: other threads may import modules while we iterate", "        module_names = sys.modules"),
    ("C10", "dependon-shared-between-threads", "einx/_src/tracer/graph.py", "_dependon = threading.local()", "import types\n_dependon = types.SimpleNamespace()"),
    ("C10", "lock-order-inversion", B,
     "    def enter(self, backend):\n        with self.use_lock:\n            self.state = self.state.enter(backend)",
     "    def enter(self, backend):\n        with self.use_lock:\n            with self.stack_lock:\n                self.state = self.state.enter(backend)",
     [(B, "        self.use_lock = threading.RLock()", "        self.use_lock = threading.RLock()\n        self.stack_lock = threading.Lock()"),
      (B, "    def get(self, backend=None, tensors=None):\n        with self.use_lock:\n            self.state, backend = self.state.get(backend, tensors)\n            return backend",
       "    def get(self, backend=None, tensors=None):\n        with self.stack_lock:\n            with self.use_lock:\n                self.state, backend = self.state.get(backend, tensors)\n                return backend")]),
    # ("state-mutated-in-place-by-enter" was dropped: equivalent once every registry method holds the lock)
    # ---- C11 -------------------------------------------------------------------------------------
    ("C11", "min-priority", B, "max_priority = max(backend.priority for backend in backends)", "max_priority = min(backend.priority for backend in backends)"),
    ("C11", "outermost-with-wins", B, "            return self.use_stack[-1]", "            return self.use_stack[0]"),
    ("C11", "scalar-rule-removed", B, "            backends = [self._get_by_name(\"numpy\")]", "            pass"),
    ("C11", "with-stack-before-name", B,
     "        # If backend name is given\n        if isinstance(backend, str):\n            return self._get_by_name(backend, has_checked_new_imports)\n\n        # If global default backend is specified\n        if len(self.use_stack) > 0:\n            return self.use_stack[-1]\n",
     "        # If global default backend is specified\n        if len(self.use_stack) > 0:\n            return self.use_stack[-1]\n\n        # If backend name is given\n        if isinstance(backend, str):\n            return self._get_by_name(backend, has_checked_new_imports)\n"),
    ("C11", "memo-keyed-by-type-set", B, "        tensortypes = tuple(type(tensor) for tensor in tensors)", "        tensortypes = type(tensors[0]) if len(tensors) > 0 else None"),
    ("C11", "failing-factory-raises-at-registration", B, "        except Exception:\n            backend = InvalidBackend(", "        except ImportError:\n            backend = InvalidBackend("),
    ("C11", "name-miss-does-not-check-imports", B, "            changed = self._check_new_imports(has_checked_new_imports)\n            if not changed or name not in self.name_to_backend:", "            if True:"),
    ("C11", "tie-broken-by-registration-order", B, "            backends = [backend for backend in backends if backend.priority == max_priority]",
     "            backends = [backend for backend in self.backends if backend in backends and backend.priority == max_priority][:1]"),
    # ---- C06 -------------------------------------------------------------------------------------
    ("C06", "cache-key-not-type-aware", "einx/_src/util/lru_cache.py", "        return type(x)\n", "        return None\n"),
    ("C06", "convertible-tensor-eq-ignores-kind", "einx/_src/tracer/signature/classical/tensor.py",
     "            return self.origin == other.origin and _freeze_value(self.concrete) == _freeze_value(other.concrete) and self.shape == other.shape", "            return self.origin == other.origin and self.shape == other.shape",
     [("einx/_src/tracer/signature/classical/tensor.py", "        return hash(self.shape) + hash(_freeze_value(self.concrete))", "        return hash(self.shape)")]),
    ("C13", "convertible-tensor-eq-ignores-kind", "einx/_src/tracer/signature/classical/tensor.py",
     "            return self.origin == other.origin and _freeze_value(self.concrete) == _freeze_value(other.concrete) and self.shape == other.shape", "            return self.origin == other.origin and self.shape == other.shape",
     [("einx/_src/tracer/signature/classical/tensor.py", "        return hash(self.shape) + hash(_freeze_value(self.concrete))", "        return hash(self.shape)")]),
    ("C06", "with-exit-skipped-on-exception", B, "    def __exit__(self, exc_type, exc_value, traceback):\n        self.registry.exit(self.backend)",
     "    def __exit__(self, exc_type, exc_value, traceback):\n        if exc_type is None:\n            self.registry.exit(self.backend)"),
    ("C06", "dependon-not-restored-on-exception", "einx/_src/frontend/api.py",
     "    with tracer.depend_on(\n        *input_tracers\n    ):  # Ensure that no constant tensors are allocated at graph construction time -> all functions must be invoked inside the compiled function\n        output_tracer = func(*args, **kwargs)",
     "    ctx = tracer.depend_on(*input_tracers)\n    ctx.__enter__()\n    output_tracer = func(*args, **kwargs)\n    ctx.__exit__(None, None, None)"),
    ("C06", "backend-memo-keyed-by-arity", B, "        tensortypes = tuple(type(tensor) for tensor in tensors)", "        tensortypes = len(tensors)"),
    ("C06", "backend-not-in-cache-key", "einx/_src/frontend/api.py", "        function, code = construct_graph_with_cache(args=args, kwargs=kwargs | {\"backend\": backend})",
     "        function, code = construct_graph_with_cache_for(backend.name.split(\".\")[0])(args=args, kwargs=kwargs)",
     [("einx/_src/frontend/api.py", "    construct_graph_with_cache = lru_cache(partial(_construct_graph, func=func))\n\n    @functools.wraps(func)\n    def inner(*args, backend=None, graph=False, **kwargs):",
       "    _caches = {}\n    _backends = {}\n\n    def construct_graph_with_cache_for(key):\n        if key not in _caches:\n            _caches[key] = lru_cache(lambda args, kwargs: _construct_graph(args, kwargs | {\"backend\": _backends[key]}, func=func))\n        return _caches[key]\n\n    @functools.wraps(func)\n    def inner(*args, backend=None, graph=False, **kwargs):"),
      ("einx/_src/frontend/api.py", "        backend.raise_on_import_failure()\n", "        backend.raise_on_import_failure()\n        _backends.setdefault(backend.name.split(\".\")[0], backend)\n")]),
    # ---- C13 -------------------------------------------------------------------------------------
    ("C13", "name-keyword-always-passed", "einx/_src/adapter/namedtensor_calltensorfactory.py", "            return has_var_kwargs or (\n                name in tensor.concrete.parameters",
     "            return has_var_kwargs or name == \"name\" or (\n                name in tensor.concrete.parameters"),
    ("C13", "factory-shape-assert-dropped", "einx/_src/adapter/namedtensor_calltensorfactory.py",
     "        tensor = tracer.signature.python.assert_(\n            tensor,\n            tracer.signature.python.equal(tracer.signature.python.builtins.tuple(tensor.shape), expr.shape),\n            f\"Expected shape {expr.shape} as output of tensor factory\",  # TODO:\n        )\n", ""),
    ("C13", "factory-type-assert-dropped", "einx/_src/adapter/namedtensor_calltensorfactory.py",
     "        tensor = tracer.signature.python.assert_(\n            tensor,\n            tracer.signature.python.builtins.isinstance(tensor, expected_type),\n            \"Invalid type as output of tensor factory\",  # TODO:\n        )\n", ""),
    ("C13", "arg-index-off-by-one", "einx/_src/adapter/namedtensor_calltensorfactory.py", "for arg_index, tensor in enumerate(tensors)", "for arg_index, tensor in enumerate(tensors, 1)"),
    # ---- C15 -------------------------------------------------------------------------------------
    ("C15", "iskwarg-always-false", "einx/_src/frontend/impl/_util.py", "    return lambda name: name in kwargnames", "    return lambda name: False"),
    ("C15", "adapted-output-shape-assert-dropped", "einx/_src/adapter/_util.py",
     "                tensor = tracer.signature.python.assert_(\n                    tensor,\n                    tracer.signature.python.equal(tracer.signature.python.builtins.tuple(tensor.shape), expected_out_shape),\n                    f\"Expected {_to_ord_str(i)} return value of the adapted function to be a tensor with shape {expected_out_shape}\",\n                )\n", ""),
    ("C15", "cache-key-not-type-aware", "einx/_src/util/lru_cache.py", "        return type(x)\n", "        return None\n"),
    ("C15", "clash-check-removed", "einx/_src/adapter/einx_from_namedtensor.py", "        if any(iskwarg(name) for name in used_axis_names):", "        if False and any(iskwarg(name) for name in used_axis_names):"),
    ("C15", "numpy-scalar-literal-by-str", "einx/_src/tracer/compiler/python/__init__.py", "                x = x.item()  # str() of a numpy scalar", "                pass  # x.item()  # str() of a numpy scalar"),
    # ---- C16 -------------------------------------------------------------------------------------
    ("C16", "join-exprs-through-set", "einx/_src/adapter/decomposednamedtensor_from_classical.py",
     "first_axisnames = list(dict.fromkeys(axes2[0].name for axes2 in axes if len(axes2) > 0))", "first_axisnames = list({axes2[0].name for axes2 in axes if len(axes2) > 0})"),
]


def sh(cmd, **kw):
    return subprocess.run(cmd, shell=True, capture_output=True, text=True, **kw)


def main():
    args = sys.argv[1:]
    with_tests = "--tests" in args
    only = args[args.index("--only") + 1].split(",") if "--only" in args else None
    one = args[args.index("--mutant") + 1] if "--mutant" in args else None
    results = []
    for m in MUTANTS:
        prop, name, path, old, new = m[:5]
        extra = m[5] if len(m) > 5 else []
        if only and prop not in only:
            continue
        if one and name != one:
            continue
        wt = f"/tmp/sens_{prop}_{name}"
        sh(f"git -C /repo worktree remove --force {wt}; rm -rf {wt}")
        r = sh(f"git -C /repo worktree add --detach {wt} HEAD")
        if r.returncode:
            print("worktree failed", r.stderr)
            continue
        try:
            ok = True
            for (p, o, n) in [(path, old, new)] + list(extra):
                fp = os.path.join(wt, p)
                s = open(fp).read()
                if o not in s:
                    print(f"{prop} {name}: pattern not found in {p}")
                    ok = False
                    break
                open(fp, "w").write(s.replace(o, n, 1))
            if not ok:
                results.append({"property": prop, "mutant": name, "status": "pattern-not-found"})
                continue
            imp = sh(f"cd {wt} && PYTHONPATH={wt} /venv/bin/python -c 'import einx'")
            if imp.returncode:
                results.append({"property": prop, "mutant": name, "status": "does-not-import", "err": imp.stderr[-300:]})
                print(f"{prop} {name}: does not import: {imp.stderr[-300:]}")
                continue
            tests = None
            if with_tests:
                t = sh(f"cd {wt} && PYTHONPATH={wt} timeout 1500 /venv/bin/python -m pytest -q -p no:cacheprovider --timeout=900 -x -n 6 2>&1 | tail -1")
                tests = t.stdout.strip()
            t0 = time.time()
            env = dict(os.environ, VERIF_REPO=wt)
            c = subprocess.run([os.path.join(VERIF, "check"), prop, "--tier", "quick"], capture_output=True, text=True, env=env, cwd=VERIF)
            vio = [l for l in c.stdout.splitlines() if l.startswith("VIOLATION")]
            first = [l for l in c.stdout.splitlines() if l.startswith(f"[{prop}] run") or l.startswith(f"[{prop}] history")][:1]
            res = {"property": prop, "mutant": name, "exit": c.returncode, "caught": c.returncode == 1 and bool(vio), "wall_s": round(time.time() - t0, 1), "tests": tests,
                   "first": (first[0][:300] if first else None)}
            results.append(res)
            print(json.dumps(res), flush=True)
        finally:
            sh(f"git -C /repo worktree remove --force {wt}; rm -rf {wt}")
    sh("git -C /repo worktree prune")
    out = os.path.join(VERIF, "selftest", "sensitivity_results.json")
    prev = json.load(open(out)) if os.path.exists(out) and (only or one) else []
    keep = [p for p in prev if (p["property"], p["mutant"]) not in {(r["property"], r["mutant"]) for r in results}]
    json.dump(keep + results, open(out, "w"), indent=1)
    caught = sum(1 for r in results if r.get("caught"))
    print(f"caught {caught} of {len(results)} mutants")


if __name__ == "__main__":
    main()
