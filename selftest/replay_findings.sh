#!/bin/bash
# Every defect found on the pinned tree has a minimised replay under findings/; on the repaired tree each must replay with exit 0
# ("property held", or only the recorded known finding).
cd "$(dirname "$0")/.."
rc=0
for f in findings/*.replay.json; do
  id=$(basename $f | cut -d- -f1)
  out=$(/venv/bin/python check $id --replay $f 2>&1); r=$?
  echo "$f: exit $r: $(echo "$out" | tail -1 | cut -c1-120)"
  [ $r -eq 0 ] || rc=1
done
exit $rc
