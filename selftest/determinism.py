"""Determinism self-test of the simulator (DESIGN §2.6).

For each check: the same run indices are executed (a) by 16 workers in small chunks, (b) by 3
workers in large chunks and in reversed order, (c) each of a sample alone in a fresh worker - the
SHA-256 of the full event log must agree; (d) under another PYTHONHASHSEED the harness part
(generated case, verdict) must agree.  usage: determinism.py <ID> [N]
"""
import importlib, os, sys, time
VERIF = os.path.dirname(os.path.dirname(os.path.abspath(__file__)))
sys.path.insert(0, VERIF)
from sim import driver, rng

MODS = {"C10": "checks.c10_threads", "C11": "checks.c11_registry", "C13": "checks.c13_factories", "C15": "checks.c15_adapters", "C06": "checks.c06_history"}


def batch(module, cfg, idx, hashseed, n_workers, chunk):
    res, err, _ = driver.run_batch(module, [{"env": {"hashseed": hashseed}, "indices": idx}], rng.master_seed(), cfg, n_workers=n_workers, chunk=chunk, wall_per_chunk=900)
    if err:
        print("harness errors:", err[:3]); sys.exit(2)
    return {r["i"]: r for r in res}


def main():
    pid = sys.argv[1]; n = int(sys.argv[2]) if len(sys.argv) > 2 else 64
    module = MODS[pid]
    mod = importlib.import_module(module)
    cfg = dict(mod.plan("quick").get("cfg", {})); cfg["tier"] = "quick"
    idx = list(range(n))
    t = time.time()
    a = batch(module, cfg, idx, 0, 16, 4)
    b = batch(module, cfg, idx[::-1], 0, 3, max(1, n // 3))
    solo = idx[:: max(1, n // 12)]
    c = {}
    for i in solo:
        c.update(batch(module, cfg, [i], 0, 1, 1))
    d = batch(module, cfg, idx, 1, 16, 8)
    bad = 0
    import builtins
    _print = builtins.print
    def print(*a):
        if bad <= 10: _print(*a)
    for i in idx:
        if a[i]["log_sha"] != b[i]["log_sha"]:
            bad += 1; print(f"DIVERGENCE run {i}: 16 workers/small chunks vs 3 workers/reversed: {a[i]['log_sha'][:12]} {b[i]['log_sha'][:12]}")
        if i in c and a[i]["log_sha"] != c[i]["log_sha"]:
            bad += 1; print(f"DIVERGENCE run {i}: in batch vs alone in a fresh worker: {a[i]['log_sha'][:12]} {c[i]['log_sha'][:12]}")
        if (a[i].get("case_sha"), a[i]["verdict"]) != (d[i].get("case_sha"), d[i]["verdict"]):
            bad += 1; print(f"DIVERGENCE run {i}: harness part differs under PYTHONHASHSEED=1: {a[i].get('case_sha')} {a[i]['verdict']} vs {d[i].get('case_sha')} {d[i]['verdict']}")
    same_hs = sum(a[i]["log_sha"] == d[i]["log_sha"] for i in idx)
    _print(f"{pid}: {n} runs x (16w, 3w reversed, {len(solo)} solo, hashseed 1): divergences={bad}; full event log identical across hash seeds in {same_hs}/{n} runs; {time.time()-t:.1f}s")
    sys.exit(1 if bad else 0)


if __name__ == "__main__":
    main()
