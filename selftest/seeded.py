"""Confirm a sub-agent's seeded change and run the checks against it.

usage: seeded.py <name> <PROP> [--no-tests] [--tier quick|thorough] [--checks C06,C10]
  expects /tmp/seedout_<name>/{patch.diff,demo.py,notes.md}
  1. fresh scratch worktree of /repo HEAD under /tmp, patch applied
  2. the demonstration fails with the change and passes on /repo
  3. the 85-test baseline passes with the change
  4. ./check <PROP> (VERIF_REPO = the worktree) must exit 1 with a VIOLATION line
  5. everything is recorded under /verif/seeded/<name>/ (patch.diff, demo.py, notes.md, meta.json)
"""
import json
import os
import shutil
import subprocess
import sys
import time

VERIF = os.path.dirname(os.path.dirname(os.path.abspath(__file__)))


def sh(cmd, timeout=3600, env=None):
    return subprocess.run(cmd, shell=True, capture_output=True, text=True, timeout=timeout, env=env)


def main():
    name, prop = sys.argv[1], sys.argv[2]
    tier = sys.argv[sys.argv.index("--tier") + 1] if "--tier" in sys.argv else "quick"
    checks = sys.argv[sys.argv.index("--checks") + 1].split(",") if "--checks" in sys.argv else [prop]
    src = f"/tmp/seedout_{name}"
    dst = os.path.join(VERIF, "seeded", name)
    os.makedirs(dst, exist_ok=True)
    for f in ("patch.diff", "demo.py", "notes.md"):
        if os.path.exists(os.path.join(src, f)):
            shutil.copy(os.path.join(src, f), os.path.join(dst, f))
    wt = f"/tmp/chk_{name}"
    sh(f"git -C /repo worktree remove --force {wt}; rm -rf {wt}")
    r = sh(f"git -C /repo worktree add --detach {wt} HEAD")
    meta_path = os.path.join(dst, "meta.json")
    meta = json.load(open(meta_path)) if os.path.exists(meta_path) else {}
    meta.update({"name": name, "property": prop, "repo_head": sh("git -C /repo rev-parse --short HEAD").stdout.strip()})
    try:
        a = sh(f"git -C {wt} apply {dst}/patch.diff")
        meta["patch_applies"] = a.returncode == 0
        if a.returncode:
            print("patch does not apply:", a.stderr)
            return
        env = dict(os.environ)
        env["PYTHONPATH"] = wt
        d1 = sh(f"cd {dst} && timeout 600 /venv/bin/python demo.py", env=env)
        env["PYTHONPATH"] = "/repo"
        d0 = sh(f"cd {dst} && timeout 600 /venv/bin/python demo.py", env=env)
        meta["demo_with_change"] = {"exit": d1.returncode, "tail": (d1.stdout + d1.stderr)[-300:]}
        meta["demo_without_change"] = {"exit": d0.returncode, "tail": (d0.stdout + d0.stderr)[-300:]}
        print("demo with change exit", d1.returncode, "| without", d0.returncode)
        if "--no-tests" not in sys.argv:
            t = sh(f"cd {wt} && PYTHONPATH={wt} timeout 1800 /venv/bin/python -m pytest -q -p no:cacheprovider --timeout=900 -n 6 2>&1 | tail -1")
            meta["tests_with_change"] = t.stdout.strip()
            print("tests:", t.stdout.strip())
        res = meta.setdefault("checks", {})
        for c in checks:
            t0 = time.time()
            env = dict(os.environ, VERIF_REPO=wt)
            p = subprocess.run([os.path.join(VERIF, "check"), c, "--tier", tier], capture_output=True, text=True, env=env, cwd=VERIF)
            lines = p.stdout.splitlines()
            vio = [l for l in lines if l.startswith("VIOLATION")]
            first = [l for l in lines if l.startswith(f"[{c}] run") or l.startswith(f"[{c}] history")][:1]
            res[f"{c}:{tier}"] = {"exit": p.returncode, "caught": p.returncode == 1 and bool(vio), "wall_s": round(time.time() - t0, 1), "first_violation": first[0][:600] if first else None,
                                  "summary": lines[-1][:300] if lines else None, "ran": f"VERIF_REPO=<worktree with patch> ./check {c} --tier {tier}"}
            print(c, tier, "exit", p.returncode, "caught", res[f"{c}:{tier}"]["caught"], first[0][:300] if first else "")
            # keep the (minimised) replay file of the first violation next to the patch
            for l in vio[:1]:
                rp = l.split("replay=")[-1].strip()
                if os.path.exists(rp):
                    shutil.copy(rp, os.path.join(dst, f"replay-{c}.json"))
    finally:
        json.dump(meta, open(meta_path, "w"), indent=1)
        sh(f"git -C /repo worktree remove --force {wt}; rm -rf {wt}; git -C /repo worktree prune")


if __name__ == "__main__":
    main()
