"""Regenerates /verif/MANIFEST.json from the list of checks that exist.  Run by hand after adding a check."""
import json, os, sys
VERIF = os.path.dirname(os.path.dirname(os.path.abspath(__file__)))
NA = {
 "C01": "pure function of (description, tensors, sizes, backend): no schedule, history, clock, fault or second party in its statement; deciding it needs a value oracle over the description language, which is input generation, not simulation (DESIGN §3.C01)",
 "C02": "pure function of (expressions, shapes, constraints); nothing for a scheduler or fault injector to vary (DESIGN §3.C02)",
 "C03": "quantifies over single inputs (strings, shapes, one-edit corruptions); the ordering it mentions is inside one deterministic call, not across schedules or faults (DESIGN §3.C03)",
 "C04": "compiler correctness for one graph is a pure function of the graph; statement order is chosen by the compiler, not by a scheduler (DESIGN §3.C04)",
 "C05": "pure rewrite of one graph; termination of a deterministic pure function is not a liveness-under-faults question (DESIGN §3.C05)",
 "C07": "a relation between two pure calls on identical data; no history or fault dimension (DESIGN §3.C07)",
 "C08": "metamorphic relations between pure calls; nothing to schedule or to fault (DESIGN §3.C08)",
 "C09": "per-call side-effect property decided by description and memory layout, both inputs; no interleaving or fault in it (DESIGN §3.C09)",
 "C12": "pure function of one string; termination of a deterministic parser has no schedule or fault to search over (DESIGN §3.C12)",
 "C14": "value semantics of one pure call (which element receives which update); the only freedom is not a schedule the simulator could control (DESIGN §3.C14)",
 "C17": "static property of emitted text as a function of (description, sizes); nothing dynamic to simulate (DESIGN §3.C17)",
}
CHECKS = {
 "C06": dict(mod="c06_history", technique="deterministic simulation: seeded call histories with injected failing calls, dependency faults and asynchronous aborts in one long-running interpreter, judged against pristine never-used interpreters",
   text="Seeded search over call histories (hundreds of operations per worker, all op families, with-blocks, failing calls, equal-but-not-identical aliases, injected sympy/exec/numpy/inspect failures and exceptions raised at arbitrary einx source lines, cache-size knobs). Every judged operation must have the outcome it has in an interpreter that has never run einx before. Exploration: a clean batch is evidence, not proof.",
   note="trusted: the pristine reference processes (same einx code, forked/spawned before any call), the outcome comparison in sim/outcome.py (values within 1e-9, exception class, alpha-normalised code text); only numpy backends are installed"),
 "C10": dict(mod="c10_threads", technique="deterministic simulation: real threads under a seeded baton scheduler pre-empting at einx source lines, simulated locks, linearizability check against einx's own sequential registry code",
   text="2-3 real caller threads run short programs (calls incl. first-time compilation, shared adapters, with-blocks, lookups, lazy imports, registrations with re-entrant factories, thread-local stack wrappers) under a scheduler that owns every context switch (line granularity in all einx files but util/solver.py; a share of the runs parks one thread inside a function of a random einx file until another thread has passed through it). Locks, events and conditions created by einx are simulated (deadlock detection, virtual-time timeouts). Each history is checked for a witness sequential order (Wing-Gong search) against BackendRegistryState stepped single-threaded, plus final-state equality, deadlock detection and a step cap. Exploration of seeded schedules, not exhaustive.",
   note="trusted: sim/sched.py (exactly one thread unparked), sim/linearize.py, the single-threaded outcome table; switches inside sympy/numpy/C code and inside util/solver.py are not explored"),
 "C11": dict(mod="c11_registry", technique="deterministic simulation of registration/import/lookup histories with failing-factory, late-import and interrupted-lookup faults against an executable precedence model",
   text="Fresh real BackendRegistry instances populated with synthetic frameworks (priorities, eager/lazy, failing factories) are driven through seeded histories of imports, lookups, uses and with-blocks; every answer is compared with a 30-line model of the documented precedence on three registries (main, permuted registration order, eager materialisation), repeated at the end of the history and on a registry that saw no earlier lookups; a materialisation invariant is checked on every miss; an end-to-end slice identifies the backend that actually ran on the global registry (incl. a failed backend object). Exploration over seeds.",
   note="trusted: the precedence model (reading of docs/source/gettingstarted/backends.rst), synthetic frameworks stand in for torch/jax/... which are not installed; one known finding (lazy-unmaterialised) is recognised constructively and listed in known_findings.jsonl"),
 "C13": dict(mod="c13_factories", technique="deterministic simulation of call histories with instrumented, fault-injecting tensor factories; oracle = invocation log + differential against the materialised tensor",
   text="Histories mixing cold, cached, evicted, graph=True and rejected calls in which seeded subsets of tensor arguments are instrumented factories of seven signature classes; faults: factory raises / returns wrong type / wrong shape. Oracle: exactly-once per execution, never at compile time or on graph=True/rejection, exact positional and keyword arguments, result equal to the same call with the returned array, solver agreement with solve_shapes. The quantification over descriptions is sampled, the protocol clauses are decided per history.",
   note="trusted: the instrumentation in checks/c13_factories.py, einx itself as differential reference for values (plain-tensor call), numpy only"),
 "C15": dict(mod="c15_adapters", technique="deterministic simulation of adapted-call histories with changing keyword values and misbehaving user functions; oracle = recorded callback arguments + independent loop reference",
   text="Adapters created from a pool of numpy functions with keyword-only options are called through seeded histories (new / repeated / equal-but-differently-typed keyword values, axis-name clashes, cache-size knobs) with structured descriptions; the recorded arguments (shapes, axis tuple, type-exact keywords, invocation count) and the values (explicit loop reference using the same Python function) are checked; faulty returns must raise. adapt_with_vmap is unreachable (no vmap framework installed).",
   note="trusted: the loop reference in checks/c15_adapters.py; adapt_with_vmap not covered; container-valued keywords are frozen to tuples by design and only value-compared"),
 "C16": dict(mod="c16_repro", technique="deterministic simulation of the hidden nondeterminism sources: one runner per PYTHONHASHSEED with seeded uuid4 stream, allocation noise, call order, repetition and cache size; outcomes must be identical across all configurations",
   text="A seeded corpus of generated calls (all op families, valid and failing) is executed by one fresh interpreter per PYTHONHASHSEED value, each with its own uuid4 stream, address noise, execution order, repetition count and cache size (0 = every request recompiles). Per call, the set of outcomes over all configurations must be a singleton (bytes for int/bool/data-moving, 1e-9 for float, exception class), and two graph=True texts within a process must be identical. Exploration over seeds and hash seeds.",
   note="trusted: sim/outcome.py comparison; PYTHONHASHSEED values sampled (8 quick / 32 thorough), numpy only"),
}
checks = []
for pid, c in CHECKS.items():
    if not os.path.exists(os.path.join(VERIF, "checks", c["mod"] + ".py")):
        continue
    checks.append({
        "property_id": pid,
        "quick_cmd": f"/venv/bin/python /verif/check {pid} --tier quick",
        "thorough_cmd": f"/venv/bin/python /verif/check {pid} --tier thorough",
        "evidence_file": f"/verif/evidence/{pid}.json",
        "replay_cmd_template": f"/venv/bin/python /verif/check {pid} --replay {{path}}",
        "engine": "einx-sim",
        "level_claimed": {"category": "exploration", "text": c["text"], "design_ref": f"DESIGN.md §3.{pid}"},
        "level_note": c["note"],
        "technique": c["technique"],
    })
hooks_commits = [l.strip() for l in open(os.path.join(VERIF, "hook_commits.txt"))] if os.path.exists(os.path.join(VERIF, "hook_commits.txt")) else []
man = {
 "version": 1,
 "setup_cmd": "/venv/bin/python /verif/check --selfcheck",
 "hooks": {
   "guard": "EINX_VERIF_SIM",
   "enable": "nothing to build: every check process puts /repo's working tree first on sys.path, imports einx from there and installs its seams by monkeypatching (sim/seams.py); EINX_VERIF_SIM=1 is set by ./check for its workers only. No source hook exists in /repo.",
   "baseline_off_cmd": "cd /repo && /venv/bin/python -m pytest -ra -q -p no:cacheprovider --timeout=900 --continue-on-collection-errors",
   "source_commits": hooks_commits,
   "add_only": True,
 },
 "engines": [{"name": "einx-sim", "path": "/verif/sim", "serves_properties": [c["property_id"] for c in checks],
              "kind_free_text": "hand-written deterministic simulator for a single-process Python library: seeded run derivation, baton thread scheduler on sys.settrace, simulated locks, uuid/sys.modules/dependency fault seams, ddmin shrinking, replay files"}],
 "checks": checks,
 "not_applicable": [{"property_id": k, "reason": v} for k, v in NA.items()],
 "notes": "See DESIGN.md. Exit codes of every check: 0 held (KNOWN-FINDING lines for entries of known_findings.jsonl), 1 VIOLATION with replay file, 2 harness error (never a silent pass). VERIF_SEED selects the seeded batch; VERIF_BUDGET_S caps the wall time of a batch.",
}
json.dump(man, open(os.path.join(VERIF, "MANIFEST.json"), "w"), indent=1)
import jsonschema
jsonschema.validate(man, json.load(open("/root/.vp/MANIFEST.schema.json")))
print("MANIFEST ok:", [c["property_id"] for c in checks])
