#!/bin/bash
# Re-run the checks against every confirmed seeded change (patches from /verif/seeded/<id>/patch.diff applied to a scratch worktree of /repo HEAD).
cd "$(dirname "$0")/.."
for d in seeded/*/; do
  n=$(basename $d)
  prop=$(/venv/bin/python -c "import json;print(json.load(open('$d/meta.json'))['property'])")
  mkdir -p /tmp/seedout_$n; cp $d/patch.diff $d/demo.py /tmp/seedout_$n/ 2>/dev/null; cp $d/notes.md /tmp/seedout_$n/ 2>/dev/null
  /venv/bin/python selftest/seeded.py $n $prop --no-tests 2>&1 | grep -E "caught|apply" | cut -c1-220 | sed "s/^/$n: /"
done
