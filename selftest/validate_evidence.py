import json, sys, glob, jsonschema
sch = json.load(open("/root/.vp/EVIDENCE.schema.json"))
for f in sorted(glob.glob("/verif/evidence/*.json")):
    d = json.load(open(f)); jsonschema.validate(d, sch)
    c = d["coverage"]; print(f.split("/")[-1], d["tier"], "evals", c["evaluations"], "distinct", c["distinct_nontrivial"], "wall", d["wall_s"], "viol", d.get("violations"))
