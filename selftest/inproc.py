"""Debug helper: run indices of a check in this process.  usage: inproc.py <module> <start> <end>"""
import importlib, json, os, sys, time, collections
sys.path.insert(0, os.path.dirname(os.path.dirname(os.path.abspath(__file__))))
os.environ.setdefault("OPENBLAS_NUM_THREADS", "1")
mod = importlib.import_module(sys.argv[1])
cfg = {"env": {"hashseed": int(os.environ.get("PYTHONHASHSEED", "0") or 0)}, "tier": "quick"}
cfg.update(json.loads(os.environ.get("CFG", "{}")))
mod.worker_init(cfg)
t = time.time(); c = collections.Counter(); shown = 0
for i in range(int(sys.argv[2]), int(sys.argv[3])):
    r = mod.run_index(i, int(os.environ.get("VERIF_SEED", "0")), cfg)
    c[(r["verdict"], r.get("klass"), r.get("known_sig"))] += 1
    if r["verdict"] != "ok" and shown < int(os.environ.get("SHOW", "3")):
        shown += 1; print(i, r["verdict"], r.get("klass"), r.get("detail")); 
        if os.environ.get("CASE"): print(json.dumps(r.get("case")))
print(dict(c), "%.2fs" % (time.time() - t))
