#!/bin/bash
# Every thorough check under one VERIF_SEED on the unchanged tree; usage: thorough_all.sh <seed> [IDs...]
cd "$(dirname "$0")/.."
seed=$1; shift
ids=${@:-C10 C11 C15 C13 C16 C06}
for id in $ids; do
  out=$(VERIF_SEED=$seed /venv/bin/python check $id --tier thorough 2>&1); rc=$?
  echo "seed=$seed $id rc=$rc $(echo "$out" | grep -v KNOWN | tail -1 | cut -c1-200)"
  if [ $rc -ne 0 ]; then echo "$out" | grep -E "VIOLATION|HARNESS|^\[$id\] (run|history)" | cut -c1-900; fi
  mkdir -p thorough_evidence; cp evidence/$id.json thorough_evidence/$id.seed$seed.json 2>/dev/null
done
