#!/bin/bash
# Soak: every quick check under several VERIF_SEED values on the unchanged tree; any non-zero exit is a false alarm (or a new finding).
# usage: soak.sh <first seed> <last seed> [IDs...]
cd "$(dirname "$0")/.."
a=$1; b=$2; shift 2
ids=${@:-C06 C10 C11 C13 C15 C16}
for seed in $(seq $a $b); do
  for id in $ids; do
    out=$(VERIF_SEED=$seed /venv/bin/python check $id --tier quick 2>&1)
    rc=$?
    echo "seed=$seed $id rc=$rc $(echo "$out" | grep -v KNOWN | tail -1 | cut -c1-160)"
    if [ $rc -ne 0 ]; then echo "$out" | grep -E "VIOLATION|HARNESS|^\[$id\] (run|history)" | cut -c1-700; fi
  done
done
