"""C06 - a call's outcome does not depend on earlier calls (DESIGN §3.C06).

System under simulation: one long-running interpreter (a worker) and its hidden state (per-operation
caches, adapter caches, registry memo / use_stack, _dependon stack, retrace counters).  Histories of
hundreds of operations drawn from a per-batch pool of descriptors (all op families, adapters,
solve_*/matches, with-contexts, failing calls of every stage, equal-but-not-identical aliases) are
executed back to back, with injected dependency faults and asynchronous aborts in the fault
sub-batch.  Oracle: the outcome of the same descriptor in a pristine fork of a reference zygote that
has imported einx and never called it.
"""
import hashlib
import json
import os
import sys
import threading
import time

from sim import outcome, rng, seams, shrink, workload

ID = "C06"
MODULE = "checks.c06_history"
VERIF = os.path.dirname(os.path.dirname(os.path.abspath(__file__)))
CTXS = [[], [], [], [], [], [], [], [], ["numpy.einsum"], ["numpy.numpylike"], ["numpy.einsum", "numpy"], ["numpy", "numpy.einsum"], ["numpy", "numpy.einsum", "numpy"],
        ["numpy.numpylike", "numpy.einsum", "numpy.numpylike", "numpy"]]


# ------------------------------------------------------------------------------------------------
# pool of descriptors (a pure function of the master seed and the pool size)
# ------------------------------------------------------------------------------------------------
ALIAS_KINDS = ["space", "kworder", "kw-float", "kw-npint", "kw-npfloat", "kw-bool", "kw-0d-int", "kw-0d-float", "kw-seq-tuple", "kw-seq-array", "kw-seq-array-float", "kw-singleton-list", "kw-seq-nested", "neighbour", "tensor-factory", "tensor-factory-varkw", "tensor-factory-name", "tensor-factory-wraps-plain", "tensor-factory-wraps-name", "tensor-factory-wraps-varkw",
               "tensor-dtype", "tensor-scalar", "graph-toggle", "backend-name", "other-op"]
PRES_PLAIN = ["flip", "sort", "argsort", "softmax", "log_softmax"]


def applicable_alias_kinds(d):
    out = ["space"]
    if not d["op"].startswith(("solve", "matches")):
        out.append("graph-toggle")
        if not d.get("backend") and not d["op"].startswith("adapt:"):
            out.append("backend-name")
    if d["op"] in workload.REDUCE + workload.ELEM + PRES_PLAIN + ["dot", "id"]:
        out.append("other-op")  # the same description text (and arguments) given to an operation with other conventions for brackets / outputs
    num_kw = {k: v for k, v in d["kw"].items() if isinstance(v, int | float) and not isinstance(v, bool)}
    int_kw = {k: v for k, v in num_kw.items() if isinstance(v, int)}
    if len(d["kw"]) > 1:
        out.append("kworder")
    if int_kw:
        out += ["kw-float", "kw-npint", "kw-npfloat", "kw-0d-int", "kw-0d-float"]
        if any(v in (0, 1) for v in int_kw.values()):
            out.append("kw-bool")
    if num_kw:
        out.append("neighbour")
    if int_kw:
        out.append("kw-singleton-list")  # 3 vs [3]: same bytes, different meaning (a size vs the sizes of an ellipsis axis)
    if any(isinstance(v, list) for v in d["kw"].values()):
        out += ["kw-seq-tuple", "kw-seq-array", "kw-seq-array-float", "kw-seq-nested"]
    nd = [t for t in d["tensors"] if "shape" in t]
    if nd:
        out += ["tensor-factory", "tensor-factory-varkw", "tensor-factory-name", "tensor-factory-wraps-plain", "tensor-factory-wraps-name", "tensor-factory-wraps-varkw", "tensor-dtype"]
        if any(t["shape"] == [] for t in nd):
            out.append("tensor-scalar")
    return out


def make_alias(r, d, kind, force_class=None):
    """An equal-but-not-identical (or, for 'neighbour', a confusable) variant of descriptor d (F-alias)."""
    d = json.loads(json.dumps(d))
    int_kw = sorted(k for k, v in d["kw"].items() if isinstance(v, int) and not isinstance(v, bool))
    if kind == "space":
        d["desc"] = d["desc"].replace(" ", "  ", 1) if " " in d["desc"] else d["desc"] + " "
    elif kind == "graph-toggle":
        d["graph"] = not d.get("graph")  # the cache entry holds (function, code): the other half must be served as faithfully
    elif kind == "backend-name":
        d["backend"] = r.choice(["numpy", "numpy", "numpy.numpylike"])
    elif kind == "other-op":
        n = len(d["tensors"])
        classes = [workload.REDUCE, PRES_PLAIN, ["id"]] if n == 1 else [[o for o in workload.ELEM if o != "where"], ["dot"], ["id"]]
        classes = [c for c in classes if d["op"] not in c]
        if force_class is not None:
            classes = [force_class]
        d["op"] = r.choice(r.choice(classes))
    elif kind == "kworder":
        items = list(d["kw"].items())
        r.shuffle(items)
        if list(dict(items)) == list(d["kw"]):
            items = items[::-1]
        d["kw"] = dict(items)
    elif kind == "kw-singleton-list":
        k = r.choice(int_kw)
        d["kw"][k] = [d["kw"][k]]
    elif kind == "kw-seq-nested":
        k = r.choice(sorted(k for k, v in d["kw"].items() if isinstance(v, list)))
        d["kw"][k] = [list(d["kw"][k])]
    elif kind.startswith("kw-seq"):
        k = r.choice(sorted(k for k, v in d["kw"].items() if isinstance(v, list)))
        v = d["kw"][k]
        d["kw"][k] = {"kw-seq-tuple": {"tuple": list(v)}, "kw-seq-array": {"nd": {"shape": [len(v)], "dtype": "int64", "data": list(v)}},
                      "kw-seq-array-float": {"nd": {"shape": [len(v)], "dtype": "float64", "data": [float(x) for x in v]}}}[kind]
    elif kind.startswith("kw-"):
        ks = [k for k in int_kw if d["kw"][k] in (0, 1)] if kind == "kw-bool" else int_kw
        k = r.choice(ks)
        v = d["kw"][k]
        d["kw"][k] = {"kw-float": float(v), "kw-npint": {"np": "int64", "value": v}, "kw-npfloat": {"np": r.choice(["float32", "float64"]), "value": v}, "kw-bool": bool(v),
                      "kw-0d-int": {"nd": {"shape": [], "dtype": "int64", "data": [v]}}, "kw-0d-float": {"nd": {"shape": [], "dtype": "float64", "data": [float(v)]}}}[kind]
    elif kind == "neighbour":
        # not an equal value but a related one that a too coarse cache key would conflate (hash(-1) == hash(-2), 0.0 == -0.0)
        ks = sorted(k for k, v in d["kw"].items() if isinstance(v, int | float) and not isinstance(v, bool))
        k = r.choice(ks)
        v = d["kw"][k]
        if isinstance(v, float):
            d["kw"][k] = -v if v == 0 else (-2.0 if v == -1.0 else (-1.0 if v == -2.0 else v + 1.0))
        else:
            d["kw"][k] = -2 if v == -1 else (-1 if v == -2 else v + 1)
    else:
        nd = [j for j, t in enumerate(d["tensors"]) if "shape" in t]
        if kind == "tensor-scalar":
            nd = [j for j in nd if d["tensors"][j]["shape"] == []]
        j = r.choice(nd)
        t = d["tensors"][j]
        if kind == "tensor-scalar":
            v = t["data"][0]
            d["tensors"][j] = {"scalar": v, "type": r.choice(["float", "np.float64", "np.float32"]) if t["dtype"].startswith("float") else r.choice(["int", "np.int64", "float"])}
        elif kind.startswith("tensor-factory"):
            nd0 = [j2 for j2, t2 in enumerate(d["tensors"]) if "shape" in t2]
            j = nd0[0]  # always the first tensor: the factory aliases of one base differ only in the factory's signature
            d["tensors"][j] = {"factory": {"of": d["tensors"][j], "mode": "ok", "sig": {"tensor-factory": "plain", "tensor-factory-varkw": "varkw", "tensor-factory-name": "name", "tensor-factory-wraps-plain": "wraps-plain",
                                                                                       "tensor-factory-wraps-name": "wraps-name", "tensor-factory-wraps-varkw": "wraps-varkw"}[kind]}}
        elif t["dtype"] == "int64":
            d["tensors"][j] = dict(t, dtype="float64", data=[float(x) for x in t["data"]])
        elif t["dtype"] == "float64":
            d["tensors"][j] = dict(t, dtype="float32")
        else:
            d["tensors"][j] = dict(t, dtype="int64", data=[int(x) for x in t["data"]])
    return d


def gen_pool(master, size):
    r = rng.stream(rng.derive(master, ID, "pool"), "pool")
    pool = []
    alias_count = {}
    while len(pool) < size:
        fam = r.random()
        if fam < 0.12:
            name = r.choice(workload.ADAPTERS)
            if name.startswith("red"):
                d = workload.gen_call(r, "reduce")
                d["op"] = "adapt:" + name
                if "->" in d["desc"] and "[" not in d["desc"]:
                    continue
                if name == "red_sum_scale" and r.random() < 0.7:
                    d["kw"]["scale"] = r.choice([1, 2, 3, -1, -2, 0.0, -0.0, -1.0])
            else:
                d = workload.gen_call(r, "elem")
                d["op"] = "adapt:" + name
                d["tensors"] = d["tensors"][:2]
                d["desc"] = ", ".join(d["desc"].split(" -> ")[0].split(", ")[:2]) + ((" -> " + d["desc"].split(" -> ")[1]) if " -> " in d["desc"] else "")
                if name == "el_axpy" and r.random() < 0.7:
                    d["kw"]["alpha"] = r.choice([1, 2, 3, -1, -2, 0.0, -0.0, -2.0])
        elif fam < 0.22:
            d = workload.gen_call(r, "solve")  # solve_axes / solve_shapes / matches are named by the property: keep them frequent
            if r.random() < 0.5 and d["kw"]:
                pass
            elif r.random() < 0.5:
                d["kw"]["zz"] = r.choice([2, 3])  # a size for an axis the description does not use
        else:
            d = workload.gen_call(r)
        if d.get("_axes") and r.random() < 0.45:  # redundant (consistent) size keywords: more keyword values for the cache key to get wrong
            for n in r.sample(sorted(d["_axes"]), min(len(d["_axes"]), r.randint(1, 2))):
                d["kw"].setdefault(n, d["_axes"][n])
        if r.random() < 0.25:
            d = workload.corrupt(r, d)
        if r.random() < 0.15 and not d["op"].startswith(("solve", "matches")):
            d["graph"] = True
        if r.random() < 0.15 and not d["op"].startswith(("solve", "matches", "adapt:")):
            d["backend"] = r.choice(["numpy", "numpy.einsum", "numpy.numpylike", "nope"])
        if r.random() < 0.08 and not d["op"].startswith(("solve", "matches")):
            nd = [j for j, t in enumerate(d["tensors"]) if "shape" in t]
            if nd:
                j = r.choice(nd)
                d["tensors"][j] = {"factory": {"of": d["tensors"][j], "mode": r.choice(["ok", "ok", "raise", "wrongshape", "wrongtype"])}}
        ctx = r.choice(CTXS) if not d["op"].startswith(("solve", "matches")) else []
        if d["tensors"] and all("scalar" in t for t in d["tensors"]) and r.random() < 0.7:
            d["backend"], ctx = None, []  # the scalar rule only acts when neither an argument nor a with-block selects the backend
        base = len(pool)
        pool.append({"d": d, "ctx": ctx, "alias_of": None})
        kinds = applicable_alias_kinds(d)
        for _ in range(r.choice([0, 1, 1, 2, 2, 3])):
            if len(pool) >= size:
                break
            m = min(alias_count.get(k, 0) for k in kinds)  # stratified: the rarest applicable kind first
            kind = r.choice([k for k in kinds if alias_count.get(k, 0) == m])
            a = make_alias(r, d, kind)
            if json.dumps(a, sort_keys=False) != json.dumps(d, sort_keys=False):  # not `a != d`: 2 == 2.0 == True in Python
                alias_count[kind] = alias_count.get(kind, 0) + 1
                pool.append({"d": a, "ctx": ctx, "alias_of": base, "alias_kind": kind})
        fac = [x.get("alias_kind") for x in pool[base + 1:] if (x.get("alias_kind") or "").startswith("tensor-factory")]
        if len(fac) == 1 and len(pool) < size and r.random() < 0.6:
            # two factories of different signature classes in place of the same tensor: the compiled function of one must never be served to the other
            other = r.choice([k for k in kinds if k.startswith("tensor-factory") and k != fac[0]])
            pool.append({"d": make_alias(r, d, other), "ctx": ctx, "alias_of": base, "alias_kind": other})
            alias_count[other] = alias_count.get(other, 0) + 1
        if d["op"] in workload.REDUCE + ["dot"] and "[" not in d["desc"] and len(d["tensors"]) == 1 and len(pool) < size and r.random() < 0.6:
            # descriptions are parsed per text, operations then add their own implicit brackets: the same text given to a reduction
            # (brackets implied) and to an order-preserving operation (brackets required) must not influence each other
            pool.append({"d": make_alias(r, d, "other-op", force_class=PRES_PLAIN), "ctx": ctx, "alias_of": base, "alias_kind": "other-op"})
            alias_count["other-op"] = alias_count.get("other-op", 0) + 1
        if d["op"].startswith(("solve", "matches")) and "kw-singleton-list" in kinds and len(pool) < size and r.random() < 0.6:
            # the solve helpers take the same size keywords as the operations but have no compile cache of their own: keep the
            # "3 vs [3]" pair (same bytes, different meaning) frequent for them
            pool.append({"d": make_alias(r, d, "kw-singleton-list"), "ctx": ctx, "alias_of": base, "alias_kind": "kw-singleton-list"})
            alias_count["kw-singleton-list"] = alias_count.get("kw-singleton-list", 0) + 1
    return pool


def gen_history(seed, pool, faulty):
    r = rng.stream(seed, "c06-history")
    n = r.randint(300, 500)
    groups = {}
    for k, p in enumerate(pool):
        groups.setdefault(p["alias_of"] if p["alias_of"] is not None else k, []).append(k)
    gkeys = sorted(groups)
    hist = []
    while len(hist) < n:
        c = r.random()
        if c < 0.45 and hist:
            # re-issue something related to a recent operation: itself or an alias sibling
            k = hist[-r.randint(1, min(len(hist), 8))]["k"]
            g = groups[pool[k]["alias_of"] if pool[k]["alias_of"] is not None else k]
            k = r.choice(g)
        else:
            k = r.choice(groups[r.choice(gkeys)])
        op = {"k": k}
        if faulty and r.random() < 0.22:
            kind = r.choice(["sympy", "exec", "numpy", "inspect", "async", "async", "async"])
            op["fault"] = {"kind": kind, "k": int(10 ** r.uniform(0, 3.7)) if kind == "async" else r.choice([1, 1, 2, 3])}
        hist.append(op)
    return hist


# ------------------------------------------------------------------------------------------------
# worker side
# ------------------------------------------------------------------------------------------------
def worker_init(cfg):
    seams.bootstrap(warmup=True)
    return {}


POOLS = {}


def get_pool(master, size):
    if (master, size) not in POOLS:
        POOLS[(master, size)] = gen_pool(master, size)
    return POOLS[(master, size)]


def run_index(i, master, cfg):
    pool = get_pool(master, cfg["pool_size"])
    seed = rng.run_seed(ID, i, master)
    faulty = (i % 3 == 2)
    hist = gen_history(seed, pool, faulty)
    ops = [dict(op, d=pool[op["k"]]["d"], ctx=pool[op["k"]]["ctx"]) for op in hist]
    res = run_history(seed, ops, cfg, pool=pool)
    res["case_sha"] = hashlib.sha1(json.dumps(hist, sort_keys=True).encode()).hexdigest()[:12]
    res["faulty"] = faulty
    if i < 2:
        res["sample"] = {"history_index": i, "length": len(hist), "first_ops": [[pool[o["k"]]["d"]["op"], pool[o["k"]]["d"]["desc"], pool[o["k"]]["ctx"], o.get("fault")] for o in hist[:12]]}
    return res


def _fault_cm(f):
    if f["kind"] == "sympy":
        return seams.fault_sympy(f["k"])
    if f["kind"] == "exec":
        return seams.fault_exec()
    if f["kind"] == "numpy":
        return seams.fault_numpy()
    if f["kind"] == "inspect":
        return seams.fault_inspect()
    return seams.fault_async(f["k"])


def run_history(seed, ops, cfg, pool=None, want_full=None):
    """Execute ops back to back from one reset.  Returns per-descriptor observations
    obs[k] = [[exact digest, position, class-of-what-preceded], ...] (one entry per distinct digest)
    and the invariant violations found on the way.  want_full: position whose full outcome is wanted."""
    einx = seams.WORLD.einx
    seams.reset_world(seed)
    graphmod = sys.modules["einx._src.tracer.graph"]
    reg = seams.WORLD.registry
    state = {}
    stack = []  # (name, backend object)
    obs = {}
    stats = {"ops": 0, "judged_ops": 0, "unjudged_faulted_ops": 0}
    faults = {"F-parse": 0, "F-run-or-reject": 0, "F-alias": 0, "F-dep-sympy": 0, "F-dep-exec": 0, "F-dep-numpy": 0, "F-dep-inspect": 0, "F-async": 0, "F-evict": 0}
    probes = {"cache_hit_identical": 0, "cache_hit_after_alias": 0, "after_failing_call": 0, "after_injected_fault": 0, "inside_with_block": 0, "async_fired_in_tracing": 0,
              "fault_fired_but_call_succeeded": 0, "with_block_left_by_exception": 0}
    sigs = set()
    inv = []
    seen = set()
    seen_groups = set()
    prev = "start"
    full = None
    log = []
    for pos, op in enumerate(ops):
        d, ctx = op["d"], op["ctx"]
        # with-stack transition to the descriptor's context
        common = 0
        while common < len(stack) and common < len(ctx) and stack[common][0] == ctx[common]:
            common += 1
        while len(stack) > common:
            n, b = stack.pop()
            if prev == "failed":  # the block is left through the exception of its last call
                probes["with_block_left_by_exception"] += 1
                exc = RuntimeError("propagating out of the with block")
                b.__exit__(type(exc), exc, None)
            else:
                b.__exit__(None, None, None)
        for n in ctx[common:]:
            b = einx.backend.get(n)
            b.__enter__()
            stack.append((n, b))
        stats["ops"] += 1
        f = op.get("fault")
        k = op.get("k", pos)
        gk = k if pool is None or pool[k]["alias_of"] is None else pool[k]["alias_of"]
        fired = 0
        if f:
            cm = _fault_cm(f)
            try:
                with cm:
                    o = outcome.capture(lambda: workload.execute(einx, d, state))
            except seams.InjectedAbort:
                o = {"kind": "exc", "cls": "InjectedAbort"}
            except BaseException as e:  # e.g. the injected fault surfacing through a bare except path
                o = {"kind": "exc", "cls": type(e).__name__}
            fired = cm.fired
            if fired:
                faults[{"sympy": "F-dep-sympy", "exec": "F-dep-exec", "numpy": "F-dep-numpy", "inspect": "F-dep-inspect", "async": "F-async"}[f["kind"]]] += 1
                if f["kind"] == "async" and cm.where and any(x in cm.where[0] for x in ("tracer/", "adapter/", "namedtensor/", "frontend/api")):
                    probes["async_fired_in_tracing"] += 1
                if o["kind"] != "exc":
                    probes["fault_fired_but_call_succeeded"] += 1
        else:
            o = outcome.capture(lambda: workload.execute(einx, d, state))
        if fired:
            stats["unjudged_faulted_ops"] += 1  # relaxed deliberately: only termination is demanded of a faulted op
            klass = None
        else:
            stats["judged_ops"] += 1
            if k in seen:
                klass = "hit-identical"
                probes["cache_hit_identical"] += 1
            elif gk in seen_groups:
                klass = "hit-after-alias"
                probes["cache_hit_after_alias"] += 1
                faults["F-alias"] += 1
            else:
                klass = "cold"
            if prev == "failed":
                klass += "+after-failing-call"
                probes["after_failing_call"] += 1
            elif prev == "faulted":
                klass += "+after-injected-fault"
                probes["after_injected_fault"] += 1
            if ctx:
                klass += f"+with-depth-{len(ctx)}"
                probes["inside_with_block"] += 1
            dg = outcome.digest(o) if o["kind"] != "code" else "code:" + hashlib.sha1(o["norm"].encode()).hexdigest()[:12]
            lst = obs.setdefault(k, [])
            if not any(e[0] == dg for e in lst):
                lst.append([dg, pos, klass])
            sigs.add(hashlib.sha1(f"{k}|{klass}".encode()).hexdigest()[:12])
            seen.add(k)
            seen_groups.add(gk)
            if o["kind"] == "exc":
                faults["F-parse" if o["cls"].endswith("SyntaxError") else "F-run-or-reject"] += 1
        if want_full == pos:
            full = None if fired else o  # a faulted operation is not judged on its own outcome (only that it terminates)
        prev = "faulted" if fired else ("failed" if o["kind"] == "exc" else "ok")
        log.append([k, outcome.short(o) if not fired else "faulted"])
        # invariants after every operation
        dep = getattr(graphmod._dependon, "stack", [])
        if len(dep) != 0:
            inv.append({"pos": pos, "klass": "dependon-stack-leak", "detail": f"after operation {pos} ({d['op']} {d['desc']!r}, fault {f}) the thread's tracing dependency stack holds {len(dep)} entries"})
            graphmod._dependon.stack = []
        us = [b.name for b in reg.state.use_stack]
        if us != [n for n, _ in stack]:
            inv.append({"pos": pos, "klass": "use-stack-leak", "detail": f"after operation {pos} ({d['op']} {d['desc']!r}, fault {f}) the with-stack is {us}, expected {[n for n, _ in stack]}"})
            break
    while stack:
        n, b = stack.pop()
        try:
            b.__exit__(None, None, None)
        except Exception:
            break
    for c in seams.WORLD.caches:
        try:
            ci = c.cache_info()
            if ci.maxsize is not None:
                faults["F-evict"] += max(0, ci.misses - ci.currsize)
        except Exception:
            pass
    res = {"stats": stats, "faults": faults, "probes": probes, "sigs": sorted(sigs), "obs": {str(k): v for k, v in obs.items()}, "inv": inv[:3], "verdict": "ok",
           "log_sha": hashlib.sha256(json.dumps(log, sort_keys=True, default=str).encode()).hexdigest()}
    if want_full is not None:
        res["full"] = full
    return res


def _exact(d):
    return d["op"] in workload.DATA_MOVING


_REFS = {}


def exec_case(case, cfg):
    """Replay: ops (descriptors inlined) executed in this worker; the focus operation is compared with
    two pristine references computed in spawned, completely fresh interpreters."""
    from sim import zygote

    ops = case["ops"]
    f = case["focus"]
    res = run_history(case["seed"], ops, cfg, pool=None, want_full=f if case.get("klass_kind") != "invariant" else None)
    out = {"stats": res["stats"], "faults": res["faults"], "probes": res["probes"], "sigs": [], "log_sha": res["log_sha"], "verdict": "ok"}
    if case.get("klass_kind") == "invariant":
        if res["inv"]:
            out.update(verdict="violation", klass=res["inv"][0]["klass"], detail=res["inv"][0]["detail"])
        return out
    d, ctx = ops[f]["d"], ops[f]["ctx"]
    key = json.dumps([d, ctx], sort_keys=True)
    if case.get("_refs"):  # shrink candidates: the focus operation stays the same, the driver passes its references along
        _REFS[key] = tuple(case["_refs"])
    if key not in _REFS:
        _REFS[key] = (zygote.fresh_reference(d, ctx, uuid_seed=1, noise=0), zygote.fresh_reference(d, ctx, uuid_seed=987654321, noise=4242))
    r1, r2 = _REFS[key]
    out["refs"] = [r1, r2]
    if not outcome.same(r1, r2, exact=_exact(d)):
        out["stats"]["reference_unstable"] = 1
        return out
    got = res["full"]
    if got is None or outcome.same(r1, got, exact=_exact(d)):
        return out
    kind = "exception" if "exc" in (r1["kind"], got["kind"]) else ("code" if "code" in (r1["kind"], got["kind"]) else "value")
    hist = [[o["d"]["op"], o["d"]["desc"], o["d"]["kw"], o["ctx"], o.get("fault")] for o in ops]
    out.update(verdict="violation", klass="history-dependence:" + kind, expected=outcome.short(r1), observed=outcome.short(got),
               detail=f"after {len(ops) - 1} earlier operation(s) {hist[:-1][-4:]} the call {hist[-1]} gives {outcome.short(got)}; in a fresh interpreter it gives {outcome.short(r1)}")
    return out


def shrink_case(case, klass, cfg):
    def fails(c):
        r = exec_case(c, cfg)
        return r["verdict"] == "violation" and r.get("klass") == klass

    f = case["focus"]
    if case.get("klass_kind") == "invariant":
        idx = list(range(len(case["ops"])))
        keep = shrink.ddmin(idx, lambda sub: fails(dict(case, ops=[case["ops"][k] for k in sub], focus=len(sub) - 1)), budget=60)
        return dict(case, ops=[case["ops"][k] for k in keep], focus=len(keep) - 1)
    # candidates in order of likelihood: the last alias sibling + the call; then ddmin over the prefix
    prefix = list(range(f))

    def build(keep):
        keep = list(keep) + [f]
        return dict(case, ops=[case["ops"][k] for k in keep], focus=len(keep) - 1)

    tried = 0
    seen_k = set()
    for k in reversed(prefix):  # most likely culprit: an earlier alias sibling (or the call itself) alone
        o = case["ops"][k]
        if o.get("g") is not None and o.get("g") == case["ops"][f].get("g") and o.get("k") not in seen_k and not o.get("fault"):
            seen_k.add(o.get("k"))
            tried += 1
            c = build([k])
            if fails(c):
                return c
            if tried >= 4:
                break
    keep = shrink.ddmin(prefix, lambda sub: fails(build(sub)), budget=120)
    c = build(keep)
    return c if fails(c) else case


def shrink_in_fresh_workers(case, first, cfg, budget=36):
    """C06 is about hidden process state, so a shrink candidate is only meaningful in a process that has
    seen nothing but the candidate: every candidate is executed in its own fresh worker (DESIGN §2.8)."""
    from sim import driver

    klass = first["klass"]
    refs = first.get("refs")
    n = [0]

    def fails(c):
        n[0] += 1
        cand = dict(c)
        if refs and c.get("klass_kind") != "invariant":
            cand["_refs"] = refs
        try:
            out = driver.one_shot(MODULE, c.get("env", {}), cfg, {"cmd": "exec", "case": cand}, timeout=600)
        except driver.HarnessError:
            return False
        r = out[0] if out else {}
        return r.get("verdict") == "violation" and r.get("klass") == klass

    f = case["focus"]
    ops = case["ops"]

    def build(keep):
        keep = list(keep) + [f]
        return dict(case, ops=[ops[k] for k in keep], focus=len(keep) - 1)

    if case.get("klass_kind") == "invariant":
        keep = shrink.ddmin(list(range(f)), lambda sub: fails(build(sub)), budget=budget)
        c = build(keep)
        return c if fails(c) else case
    # most likely culprits first: an earlier alias sibling (or the identical call) alone
    tried = 0
    seen_k = set()
    for k in reversed(range(f)):
        o = ops[k]
        if o.get("g") is not None and o.get("g") == ops[f].get("g") and o.get("k") not in seen_k and not o.get("fault"):
            seen_k.add(o.get("k"))
            tried += 1
            c = build([k])
            if fails(c):
                return c
            if tried >= 3:
                break
    keep = shrink.ddmin(list(range(f)), lambda sub: fails(build(sub)), budget=budget)
    c = build(keep)
    return c if len(keep) < f and fails(c) else case


# ------------------------------------------------------------------------------------------------
# driver side
# ------------------------------------------------------------------------------------------------
GROUP_ENVS = [{"hashseed": 0, "cache_size": -1, "warn": 0}, {"hashseed": 0, "cache_size": 2, "warn": 0}, {"hashseed": 0, "cache_size": 8, "warn": 1},
              {"hashseed": 0, "cache_size": 0, "warn": 0}, {"hashseed": 0, "cache_size": 1, "warn": 3}, {"hashseed": 0, "cache_size": -1, "warn": 1}]


def main(tier):
    from sim import campaign, driver, evidence, zygote

    t0 = time.time()
    master = rng.master_seed()
    pool_size = 260 if tier == "quick" else 6000
    n_hist = 42 if tier == "quick" else 1500
    mx = os.environ.get("VERIF_MAX_RUNS")
    if mx:
        n_hist = min(n_hist, int(mx))
        pool_size = min(pool_size, int(os.environ.get("VERIF_POOL", pool_size)))
    pool = gen_pool(master, pool_size)
    print(f"[{ID}] tier={tier} VERIF_SEED={master} pool={len(pool)} descriptors ({sum(p['alias_of'] is not None for p in pool)} aliases), histories={n_hist}", flush=True)
    # references: one pristine fork per descriptor, computed while the workers already run
    table = [None] * len(pool)
    ref_err = []
    ref_stats = {"references": 0, "fresh_interpreter_crosschecks": 0}
    spawn_viol = []

    def ref_thread(zno, nz):
        try:
            z = zygote.Zygote()
            rr = rng.stream(rng.derive(master, ID, "refs"), f"z{zno}")
            for k in range(zno, len(pool), nz):
                table[k] = z.ref(pool[k]["d"], pool[k]["ctx"], uuid_seed=rr.randrange(1 << 30), noise=rr.randrange(1 << 16))
                ref_stats["references"] += 1
                if rng.derive(master, "spawncheck", k) % 100 < 2:
                    fr = zygote.fresh_reference(pool[k]["d"], pool[k]["ctx"], uuid_seed=5, noise=77)
                    ref_stats["fresh_interpreter_crosschecks"] += 1
                    if not outcome.same(table[k], fr, exact=_exact(pool[k]["d"])):
                        spawn_viol.append(k)
            z.close()
        except Exception as e:
            ref_err.append(f"{type(e).__name__}: {e}")

    nz = 2
    threads = [threading.Thread(target=ref_thread, args=(z, nz), daemon=True) for z in range(nz)]
    for t in threads:
        t.start()
    groups = [{"env": e, "indices": [i for i in range(n_hist) if i % len(GROUP_ENVS) == g]} for g, e in enumerate(GROUP_ENVS)]
    groups = [g for g in groups if g["indices"]]
    cfg = {"pool_size": pool_size, "tier": tier, "wall_per_run": 600}
    log_dir = os.path.join(VERIF, "replays", "logs", ID)
    import shutil

    shutil.rmtree(log_dir, ignore_errors=True)
    os.makedirs(log_dir, exist_ok=True)
    results, errors, skipped = driver.run_batch(MODULE, groups, master, cfg, n_workers=14, chunk=1 if tier == "quick" else 4, wall_per_chunk=1800, log_dir=log_dir)
    for t in threads:
        t.join()
    if ref_err:
        print(f"[{ID}] HARNESS-ERROR reference zygote: {ref_err[:2]}")
        return 2
    good_refs = sum(1 for o in table if o is not None and o["kind"] != "exc")
    if good_refs < 0.3 * len(table):
        print(f"[{ID}] HARNESS-ERROR vacuous batch: only {good_refs} of {len(table)} pristine references succeed - the tree under test or the generator is broken")
        return 2
    env_of = {i: g["env"] for g in groups for i in g["indices"]}
    # judge
    stats = evidence.Counter()
    faults = evidence.Counter()
    probes = evidence.Counter()
    sigs = set()
    samples = []
    cands = []
    judged = 0
    ref_kinds = evidence.Counter()
    for o in table:
        ref_kinds.add("ref_" + (o["kind"] if o["kind"] != "exc" else o["cls"].split(".")[-1]))
    for r in results:
        stats.merge(r["stats"])
        faults.merge(r["faults"])
        probes.merge(r["probes"])
        sigs.update(r["sigs"])
        if r.get("sample") and len(samples) < 3:
            samples.append(r["sample"])
        for v in r.get("inv", []):
            cands.append({"i": r["i"], "pos": v["pos"], "kind": "invariant", "klass": v["klass"], "detail": v["detail"]})
        for ks, lst in r["obs"].items():
            k = int(ks)
            ref = table[k]
            rdg = outcome.digest(ref) if ref["kind"] != "code" else "code:" + hashlib.sha1(ref["norm"].encode()).hexdigest()[:12]
            for dg, pos, klass in lst:
                judged += 1
                if dg != rdg:
                    cands.append({"i": r["i"], "pos": pos, "kind": "outcome", "k": k, "klass_hint": klass})
    for k in spawn_viol:
        cands.append({"i": -1, "pos": 0, "kind": "spawn", "k": k})
    cands.sort(key=lambda c: (c["i"], c["pos"]))
    known_db = campaign.load_known(ID)
    exit_code = 0
    reported = {}
    n_viol = 0
    confirmed = 0
    dismissed = 0
    for c in cands:
        if len(reported) >= 3 or confirmed + dismissed >= 12:
            break
        if c["kind"] == "spawn":
            print(f"[{ID}] descriptor {c['k']} ({pool[c['k']]['d']['op']} {pool[c['k']]['d']['desc']!r}) differs between the sympy-warmed zygote and a completely fresh interpreter")
            continue
        seed = rng.run_seed(ID, c["i"], master)
        hist = gen_history(seed, pool, c["i"] % 3 == 2)
        ops = [dict(op, d=pool[op["k"]]["d"], ctx=pool[op["k"]]["ctx"], g=(pool[op["k"]]["alias_of"] if pool[op["k"]]["alias_of"] is not None else op["k"])) for op in hist[: c["pos"] + 1]]
        case = {"seed": seed, "ops": ops, "focus": c["pos"], "env": env_of[c["i"]], "klass_kind": c["kind"], "history_index": c["i"]}
        try:
            out = driver.one_shot(MODULE, case["env"], cfg, {"cmd": "exec", "case": case}, timeout=900)
        except driver.HarnessError as e:
            out = [{"harness_error": str(e)}]
        first = out[0] if out else {}
        if first.get("verdict") != "violation":
            dismissed += 1
            if "harness_error" in first:
                errors.append(first)
            continue
        confirmed += 1
        if first["klass"] in reported:
            continue
        case = shrink_in_fresh_workers(case, first, cfg)
        res = dict(first, case=case, i=c["i"])
        path, ok, final = campaign.report_violation(MODULE, ID, res, cfg, shrink=False)
        reported[first["klass"]] = path
        n_viol += 1
        if ok:
            print(f"[{ID}] history {c['i']} position {c['pos']}: {final.get('klass')}: {final.get('detail')}")
            print(f"VIOLATION property={ID} replay={path}", flush=True)
            exit_code = 1
        else:
            print(f"HARNESS-FLAKY property={ID} history={c['i']} replay={path} ({final})", flush=True)
            exit_code = max(exit_code, 2)
    if errors:
        for e in errors[:3]:
            print(f"[{ID}] HARNESS-ERROR {e.get('harness_error')} {e.get('traceback', '')[-1200:]}")
        exit_code = exit_code or 2
    wall = time.time() - t0
    cov = {
        "evaluations": len(results), "distinct_nontrivial": len(sigs),
        "rule": f"a run = one history of 300-500 operations drawn from a pool of {len(pool)} descriptors (einx ops of all families, adapters, solve_*/matches, factories, 25% corrupted calls, "
                "16 stratified kinds of equal-but-not-identical or confusable aliases (2 / 2.0 / True / numpy scalars / 0-d arrays, list / tuple / array sizes, -1 vs -2, 0.0 vs -0.0, array / scalar / factory of three "
                "signature classes, dtype, spacing, keyword order), with-contexts up to depth 4 incl. a backend repeated inside another), executed back to back in one interpreter; every third "
                "history carries injected sympy/exec/numpy/inspect failures and asynchronous aborts on ~22% of its operations. Oracle: the same descriptor in a pristine fork of a zygote "
                "that never called einx. distinct_nontrivial = distinct (descriptor, class of what preceded it) pairs, class in {cold, hit-identical, hit-after-alias} x "
                "{after failing call, after injected fault} x with-depth",
        "samples": samples, "runs_per_hour": int(len(results) / wall * 3600), "judged_operations": stats.get("judged_ops", 0), "distinct_observations_compared": judged,
        "logical_steps": stats.get("ops", 0), "pool": {"descriptors": len(pool), "aliases": sum(p["alias_of"] is not None for p in pool), "reference_outcomes": dict(ref_kinds)},
        "references": ref_stats, "fault_counts": dict(sorted(faults.items())), "probes": dict(sorted(probes.items())), "stats": dict(sorted(stats.items())),
        "candidates": len(cands), "candidates_confirmed_in_fresh_worker": confirmed, "candidates_dismissed": dismissed, "harness_errors": len(errors),
        "seeds": {"VERIF_SEED": master, "history_seed": "sha256(VERIF_SEED|C06|index)"}, "env_groups": GROUP_ENVS,
    }
    zero = [k for k, v in cov["probes"].items() if v == 0]
    evidence.write(ID, tier, master, cov, wall, n_viol, ASSUMPTIONS + [f"coverage gap: probe '{k}' was never hit in this run" for k in zero])
    print(f"[{ID}] {len(results)} histories, {stats.get('judged_ops', 0)} judged operations, {len(cands)} candidates, {confirmed} confirmed, exit={exit_code}, {wall:.1f}s", flush=True)
    return exit_code


ASSUMPTIONS = [
    "the reference is the same einx code in a process that never called it (fork of a zygote whose sympy was warmed through einx's solver on dummy equations; 2-3% cross-checked in spawned fresh interpreters)",
    "an operation on which a dependency fault or asynchronous abort actually fired is not judged on its own outcome (only that it terminates); everything after it is judged normally",
    "asynchronous aborts are not delivered inside __enter__/__exit__ frames (an exception inside a cleanup handler defeats any with statement)",
    "all history workers and references run under PYTHONHASHSEED=0 (hash-seed dependence is C16's business); cache size and retrace-warning knobs vary per group",
    "batch-time comparison is by exact outcome digest; every candidate is re-executed in a fresh worker and compared with tolerance against two fresh-interpreter references before it is reported",
]


def replay(path):
    from sim import campaign

    return campaign.replay(MODULE, ID, path, {})
