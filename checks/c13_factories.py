"""C13 - tensor factories run once per call, with the resolved shape, only at run time (DESIGN §3.C13).

A protocol between einx and a user callback across compile time, run time and cache hits.  Seeded
histories mix cold / cached / evicted / graph=True / rejected calls in which subsets of the tensor
arguments are instrumented factories of seven signature classes, some of them misbehaving.
Oracle: the invocation log (exactly once, positional and keyword arguments, not at compile time)
and the same call with the materialised tensors.
"""
import functools
import hashlib
import json
import sys

import numpy as np

from sim import outcome, rng, seams, shrink, workload

ID = "C13"
MODULE = "checks.c13_factories"
SIG_CLASSES = ["plain", "name", "kwonly", "varkw", "object", "partial", "builtin", "nddefault", "posonly-name", "varpos-signature", "wraps-plain", "wraps-name", "lru-name", "varargs", "attr-shape"]
FAULTS = ["raise", "raise-typeerror", "type-list", "type-none", "type-scalar", "type-duck", "type-memoryview", "type-npscalar", "shape-extra", "shape-transposed", "shape-broadcast"]


class Duck:
    """Not a tensor of the backend, although it carries the right .shape and converts to an array."""

    def __init__(self, arr):
        self._arr = arr
        self.shape = arr.shape
        self.dtype = arr.dtype
        self.ndim = arr.ndim

    def __array__(self, dtype=None, copy=None):
        return self._arr if dtype is None else self._arr.astype(dtype)
FAMS = ["id", "reduce", "reduce", "elem", "elem", "dot", "get_at", "update_at", "argfind", "pres", "idcat"]


def gen_case(seed, cfg, index=0):
    r = rng.stream(seed, "c13")
    nbase = r.randint(1, 4)
    bases = [workload.gen_call(r, r.choice(FAMS)) for _ in range(nbase)]
    ops = []
    n = r.randint(4, 25)
    faulty_run = index % 3 == 2
    while len(ops) < n:
        b = r.randrange(nbase)
        d = bases[b]
        nt = len(d["tensors"])
        c = r.random()
        if c < 0.35 and ops:  # repeat an earlier operation with fresh factory objects and fresh data (cache hit)
            prev = r.choice(ops)
            op = dict(prev, salt=r.randint(1, 50), fault=None)
            op["repeat"] = True
        else:
            fpos = sorted(r.sample(range(nt), r.randint(1, nt)))
            op = {"base": b, "fpos": fpos, "sigs": [r.choice(SIG_CLASSES) for _ in fpos], "kind": "exec", "salt": 0, "fault": None, "give_sizes": r.random() < 0.75}
        k = r.random()
        if k < 0.03:
            ops.append({"kind": "zero-update", "upd": r.choice(["set_at", "add_at", "subtract_at"]), "sig": r.choice(["plain", "name", "varkw", "object"]), "size": r.choice([2, 3, 4]), "base": 0, "fpos": [0], "sigs": ["plain"], "salt": 0, "fault": None})
            continue
        if k < 0.15:
            op["kind"] = "graph"
        elif k < 0.25:
            op["kind"] = "underdetermined"  # every tensor a factory and no size keywords: nothing can be solved
        elif k < 0.32:
            op["kind"] = "syntax"  # corrupted description
            op["corrupt_at"] = r.randrange(64)
            op["corrupt_ch"] = r.choice("[]()|?")
        else:
            op["kind"] = "exec"
        if faulty_run and op["kind"] == "exec" and r.random() < 0.3:
            op["fault"] = {"which": r.randrange(len(op["fpos"])), "mode": r.choice(FAULTS)}
        ops.append(op)
    return {"seed": seed, "bases": bases, "ops": ops}


# ------------------------------------------------------------------------------------------------
def worker_init(cfg):
    seams.bootstrap(warmup=True)
    return {}


def run_index(i, master, cfg):
    seed = rng.run_seed(ID, i, master)
    case = gen_case(seed, cfg, i)
    res = exec_case(case, cfg)
    res["case_sha"] = hashlib.sha1(json.dumps(case, sort_keys=True).encode()).hexdigest()[:12]
    case["env"] = cfg.get("env", {})
    if res["verdict"] != "ok" or i < 2:
        res["case"] = case
    if i < 2:
        res["sample"] = {"case_ops": case["ops"][:8], "bases": [[b["op"], b["desc"], [t["shape"] for t in b["tensors"]], b["kw"]] for b in case["bases"]], "log": res.get("log_full")}
    res.pop("log_full", None)
    return res


class Log:
    def __init__(self):
        self.calls = []


def _in_compile():
    f = sys._getframe(2)
    while f is not None:
        if f.f_code.co_name == "_construct_graph":
            return True
        f = f.f_back
    return False


def make_factory(sigclass, arr, pos, log, fault=None):
    """Instrumented factory of the given signature class returning (a copy of) arr."""

    def produce(shape):
        if fault == "raise":
            raise RuntimeError("factory failed (injected)")
        if fault == "raise-typeerror":
            raise TypeError("factory failed with a TypeError raised in its own body (injected)")
        if fault == "type-list":
            return arr.tolist()
        if fault == "type-none":
            return None
        if fault == "type-scalar":
            return 3.5
        if fault == "type-duck":
            return Duck(arr.copy())
        if fault == "type-memoryview":
            return memoryview(np.ascontiguousarray(arr)) if arr.ndim >= 1 and arr.dtype != bool else Duck(arr.copy())
        if fault == "type-npscalar":
            return arr.dtype.type(arr.reshape(-1)[0]) if arr.ndim == 0 else Duck(arr.copy())
        if fault == "shape-extra":
            return np.zeros(tuple(shape) + (1,), dtype=arr.dtype)
        if fault == "shape-transposed":
            return np.ascontiguousarray(arr.T) if arr.ndim >= 2 and arr.shape != arr.T.shape else np.zeros(tuple(shape) + (2,), dtype=arr.dtype)
        if fault == "shape-broadcast":
            return arr[:1] if arr.ndim >= 1 and arr.shape[0] > 1 else np.zeros((1,) + tuple(shape), dtype=arr.dtype)
        return arr.copy()

    def record(args, kwargs):
        log.calls.append({"pos": pos, "args": args, "kwargs": kwargs, "in_compile": _in_compile()})

    if sigclass == "plain":
        def f(shape):
            record((shape,), {})
            return produce(shape)
        return f, set()
    if sigclass == "name":
        def f(shape, name=None):
            record((shape,), {"name": name})
            return produce(shape)
        return f, {"name"}
    if sigclass == "kwonly":
        def f(shape, *, arg_index=None, signature=None):
            record((shape,), {"arg_index": arg_index, "signature": signature})
            return produce(shape)
        return f, {"arg_index", "signature"}
    if sigclass == "varkw":
        def f(shape, **kw):
            record((shape,), dict(kw))
            return produce(shape)
        return f, {"name", "arg_index", "signature"}
    if sigclass == "object":
        class F:
            def __call__(self, shape):
                record((shape,), {})
                return produce(shape)
        return F(), set()
    if sigclass == "attr-shape":
        class Init:  # an initializer object that carries array-like attributes of its own: still a factory, contributes no size constraint
            def __init__(self):
                self.shape = tuple(arr.shape) if pos % 2 else tuple(reversed(arr.shape)) + (7,)
                self.dtype = arr.dtype
                self.ndim = len(self.shape)

            def __call__(self, shape):
                record((shape,), {})
                return produce(shape)
        return Init(), set()
    if sigclass == "partial":
        def g(shape, name=None, *, extra=0):
            record((shape,), {"name": name, "extra": extra})
            return produce(shape)
        return functools.partial(g, extra=7), {"name"}
    if sigclass == "varargs":
        def f(*args):  # a generic forwarding wrapper: must receive the shape as ONE tuple argument like every other factory
            record(tuple(args), {})
            return produce(args[0] if len(args) == 1 and isinstance(args[0], tuple) else tuple(args))
        return f, set()
    if sigclass == "posonly-name":
        def f(shape, name=None, /):  # merely *named* like an optional keyword: cannot be passed by keyword, so nothing is declared
            record((shape,), {} if name is None else {"name": name})
            return produce(shape)
        return f, set()
    if sigclass == "varpos-signature":
        def f(shape, *signature):
            record((shape,), {} if not signature else {"signature": signature})
            return produce(shape)
        return f, set()
    if sigclass in ("wraps-plain", "wraps-name"):
        # a functools.wraps pass-through decorator (logging / timing / retry style): the declared signature is the wrapped function's
        if sigclass == "wraps-plain":
            def inner(shape):
                record((shape,), {})
                return produce(shape)
        else:
            def inner(shape, name=None):
                record((shape,), {"name": name})
                return produce(shape)

        @functools.wraps(inner)
        def wrapper(*args, **kwargs):
            return inner(*args, **kwargs)

        return wrapper, (set() if sigclass == "wraps-plain" else {"name"})
    if sigclass == "lru-name":
        def inner(shape, name=None, arg_index=None):
            record((shape,), {"name": name, "arg_index": arg_index})
            return produce(shape)
        return functools.lru_cache(maxsize=None)(inner), {"name", "arg_index"}
    if sigclass == "nddefault":
        def f(shape, init=np.zeros(3)):  # an array-valued default: part of the signature that keys the cache
            record((shape,), {})
            return produce(shape)
        return f, set()
    if sigclass == "builtin":
        return None, set()  # np.ones etc.: handled by the caller
    raise ValueError(sigclass)


def exec_case(case, cfg):
    einx = seams.WORLD.einx
    seams.reset_world(case["seed"])
    tag = "_" + rng.tag(case["seed"])[:5]
    stats = {"ops": 0, "executed": 0, "rejected": 0, "graph": 0, "skipped_invalid_base": 0, "factory_invocations": 0, "solve_shapes_agree": 0, "solve_shapes_na": 0}
    faults = {"F-cb-raise": 0, "F-cb-type": 0, "F-cb-shape": 0, "F-evict": 0}
    probes = {"cache_hit_with_fresh_factory": 0, "after_graph_true": 0, "after_rejection": 0, "all_args_factories": 0, "varkw_gets_all_three": 0, "builtin_factory": 0, "underdetermined_rejected": 0,
              "accepted_without_shape_source": 0}
    sigs = set()
    log_all = []
    bad = []
    known = []
    plain_ok = {}
    axis_sizes = {}
    seen_keys = set()
    prev_kind = None
    cs = case.get("env", {}).get("cache_size", cfg.get("env", {}).get("cache_size", -1))
    for opi, op in enumerate(case["ops"]):
        stats["ops"] += 1
        if op["kind"] == "zero-update":
            # an indexed update with zero-sized coordinates / updates: nothing is updated, the result is the target tensor - which the factory must produce
            n = op["size"]
            target = np.arange(1.0, n + 1)
            log = Log()
            f, _decl = make_factory(op["sig"], target, 0, log, None)
            desc = f"[a{tag}], i{tag} [1], i{tag} -> [a{tag}]"
            try:
                result = getattr(einx, op["upd"])(desc, f, np.zeros((0, 1), dtype=np.int64), np.zeros((0,)), backend="numpy", **{"a" + tag: n})
                exc = None
            except Exception as e:
                result, exc = None, e
            stats["zero_size_updates"] = stats.get("zero_size_updates", 0) + 1
            log_all.append([opi, "zero-update", op["upd"], desc, [0], [c["pos"] for c in log.calls], type(exc).__name__ if exc else "ok"])
            where = f"op {opi} (zero-update): einx.{op['upd']}({desc!r}, <factory {op['sig']}>, zeros((0, 1)), zeros((0,)), a={n})"
            if exc is None and result is f and not log.calls:
                known.append(("factory-returned-uncalled", f"{where}: returned the factory object itself without invoking it", "update-at-zero-size-returns-factory"))
            elif exc is None and not (isinstance(result, np.ndarray) and len(log.calls) == 1 and tuple(log.calls[0]["args"][0]) == (n,) and np.array_equal(result, target)):
                bad.append(("zero-update", f"{where}: returned {type(result).__name__} after {len(log.calls)} factory invocation(s); expected the factory's array after exactly one invocation with shape ({n},)"))
            elif exc is not None and log.calls and type(exc).__name__ != "CallOperationError":
                bad.append(("invoked-on-rejection", f"{where}: rejected with {type(exc).__name__} but the factory was invoked"))
            continue
        d = workload.rename_axes(json.loads(json.dumps(case["bases"][op["base"]])), tag)  # run-unique axis names
        b = op["base"]
        if b not in plain_ok:
            o = outcome.capture(lambda: workload.execute(einx, d, {}))
            plain_ok[b] = o["kind"] == "val"
            # harness aid: the axis sizes of the base call, to be passed as keywords when a factory replaces the only source of a size
            ax = outcome.capture(lambda: einx.solve_axes(d["desc"].split("->")[0], *[workload.to_array(t) for t in d["tensors"]], **{k: workload.materialise_kw(v) for k, v in d["kw"].items() if k != "shift"}))
            axis_sizes[b] = {k: int(v["data"][0]) for k, v in ax["items"].items() if v["shape"] == [] and "." not in k and k.isidentifier()} if ax["kind"] == "map" else {}
        if not plain_ok[b]:
            stats["skipped_invalid_base"] += 1
            continue
        fpos = [p for p in op["fpos"] if p < len(d["tensors"])]
        kind = op["kind"]
        if kind == "underdetermined":
            fpos = list(range(len(d["tensors"])))
            d["kw"] = {k: v for k, v in d["kw"].items() if k == "shift"}
        desc = d["desc"]
        if kind == "syntax":
            i = op["corrupt_at"] % (len(desc) + 1)
            desc = desc[:i] + op["corrupt_ch"] + desc[i:]
        arrays = [workload.to_array(t) for t in d["tensors"]]
        salt = op.get("salt", 0)
        if salt:
            for j, a in enumerate(arrays):
                if a.dtype != bool and not (d["op"] in ("get_at", "set_at", "add_at", "subtract_at") and j == 1):
                    arrays[j] = np.asarray(a + np.asarray(salt, dtype=a.dtype))  # a 0-d sum is a numpy scalar, which einx rightly rejects as a tensor
        log = Log()
        args = []
        declared = {}
        sigcls = {}
        fault = op.get("fault")
        for j, a in enumerate(arrays):
            if j in fpos:
                sc = op["sigs"][op["fpos"].index(j)] if j in op["fpos"] else "plain"
                fm = fault["mode"] if fault and op["fpos"][fault["which"] % len(op["fpos"])] == j else None
                if sc == "builtin" and fm is None and kind == "exec":
                    f, decl = np.ones, set()
                    arrays[j] = np.ones(a.shape)  # what the builtin returns
                    probes["builtin_factory"] += 1
                else:
                    if sc == "builtin":
                        sc = "plain"
                    f, decl = make_factory(sc, a, j, log, fm)
                declared[j] = decl
                sigcls[j] = sc
                args.append(f)
            else:
                args.append(a.copy())
        kw = {k: workload.materialise_kw(v) for k, v in d["kw"].items()}
        if op.get("give_sizes") and kind != "underdetermined":
            kw.update({k: v for k, v in axis_sizes[b].items() if k not in kw})
        allfac = len(fpos) == len(arrays)
        if allfac:
            kw["backend"] = "numpy"
            probes["all_args_factories"] += 1
        if kind == "graph":
            kw["graph"] = True
        key = json.dumps([d["op"], desc, fpos, [sigcls[j] for j in fpos], sorted(kw)], default=str)
        state = "cold" if key not in seen_keys else ("hit" if cs != 0 and cs != 1 else "after-eviction")
        if key in seen_keys and op.get("repeat"):
            probes["cache_hit_with_fresh_factory"] += 1
        if prev_kind == "graph":
            probes["after_graph_true"] += 1
            state += "+after-graph"
        elif prev_kind in ("underdetermined", "syntax"):
            probes["after_rejection"] += 1
            state += "+after-rejection"
        seen_keys.add(key)
        prev_kind = kind
        try:
            result = getattr(einx, d["op"])(desc, *args, **kw)
            exc = None
        except Exception as e:
            result, exc = None, e
        calls = log.calls
        stats["factory_invocations"] += len(calls)
        instr = [j for j in fpos if args[j] is not np.ones]
        fm = fault["mode"] if fault else None
        sigs.add(hashlib.sha1(repr((d["op"], tuple(fpos), tuple(sigcls[j] for j in fpos), state, fm, kind)).encode()).hexdigest()[:12])
        log_all.append([opi, kind, d["op"], desc, fpos, [c["pos"] for c in calls], type(exc).__name__ if exc else "ok"])
        where = f"op {opi} ({kind}{'/repeat' if op.get('repeat') else ''}): einx.{d['op']}({desc!r}, factories at {fpos} [{', '.join(sigcls[j] for j in fpos)}], kw {sorted(kw)})"

        def viol(klass, msg):
            bad.append((klass, f"{where}: {msg}"))

        # ---- universal protocol rules --------------------------------------------------------------
        if any(c["in_compile"] for c in calls):
            viol("invoked-at-compile-time", "a factory was invoked while the graph was being constructed")
        per = {}
        for c in calls:
            per[c["pos"]] = per.get(c["pos"], 0) + 1
        if any(v > 1 for v in per.values()):
            viol("invoked-twice", f"factory invocations per position {per}")
        is_runtime_error = exc is not None and type(exc).__name__ == "CallOperationError"
        if exc is not None and not is_runtime_error and calls:
            viol("invoked-on-rejection", f"the call was rejected with {type(exc).__name__} but factories at {sorted(per)} were invoked")
        if kind == "graph":
            stats["graph"] += 1
            if calls:
                viol("invoked-on-graph", f"graph=True invoked factories at {sorted(per)}")
            if exc is None and not isinstance(result, str):
                viol("graph-not-text", f"graph=True returned {type(result).__name__}")
            continue
        for c in calls:
            if len(c["args"]) != 1:
                viol("shape-argument-type", f"factory {c['pos']} received {len(c['args'])} positional arguments {c['args']!r} instead of one shape tuple")
                continue
            shape = c["args"][0]
            exp_shape = tuple(arrays[c["pos"]].shape)
            if not (isinstance(shape, tuple) and all(type(s) is int for s in shape)):
                viol("shape-argument-type", f"factory {c['pos']} received shape {shape!r} ({type(shape).__name__} of {[type(s).__name__ for s in shape]})")
            elif kind == "exec" and tuple(shape) != exp_shape:
                viol("shape-argument-value", f"factory {c['pos']} received shape {shape}, the expression resolves to {exp_shape}")
            kws = {k: v for k, v in c["kwargs"].items() if k != "extra"}
            decl = declared[c["pos"]]
            if set(kws) != decl and sigcls[c["pos"]] != "varkw":
                viol("keyword-set", f"factory {c['pos']} ({sigcls[c['pos']]}) received keywords {sorted(kws)}, declares {sorted(decl)}")
            if sigcls[c["pos"]] == "varkw":
                if set(kws) == {"name", "arg_index", "signature"}:
                    probes["varkw_gets_all_three"] += 1
                else:
                    viol("keyword-set", f"**kwargs factory {c['pos']} received {sorted(kws)}, expected name, arg_index and signature")
            if "name" in kws and kws["name"] != d["op"]:
                viol("keyword-value", f"factory {c['pos']} received name={kws['name']!r} for operation {d['op']}")
            if "arg_index" in kws and kws["arg_index"] != c["pos"]:
                viol("keyword-value", f"factory at position {c['pos']} received arg_index={kws['arg_index']!r}")
            if "signature" in kws and not (hasattr(kws["signature"], "exprs_in") and hasattr(kws["signature"], "exprs_out")):
                viol("keyword-value", f"factory {c['pos']} received signature={kws['signature']!r}")
            if c["kwargs"].get("extra", 7) != 7:
                viol("keyword-value", f"partial factory {c['pos']} lost its bound keyword")
        if kind == "syntax":
            plain = outcome.capture(lambda: getattr(einx, d["op"])(desc, *[a.copy() for a in arrays], **{k: v for k, v in kw.items()}))
            if plain["kind"] == "exc" and plain["cls"].endswith("SyntaxError"):
                stats["rejected"] += 1
                if exc is None:
                    viol("accepted-invalid", "the description is rejected with SyntaxError for plain tensors but accepted with factories")
            continue
        if kind == "underdetermined":
            # nothing but factories and no sizes: accepted only if solve_shapes can solve the inputs without any shape
            ins = desc.split("->")[0]
            ss = outcome.capture(lambda: einx.solve_shapes(ins, *[None] * len(arrays), **{k: v for k, v in kw.items() if k not in ("backend", "shift")}))
            if exc is not None:
                stats["rejected"] += 1
                probes["underdetermined_rejected"] += 1
            else:
                probes["accepted_without_shape_source"] += 1
                if ss["kind"] == "exc":
                    viol("accepted-underdetermined", f"accepted although no argument or keyword provides a size (solve_shapes says {ss['cls']}); factories received {[c['args'][0] for c in calls]}")
            continue
        # ---- executed call ---------------------------------------------------------------------------
        if fault and fm is not None and any(args[j] is not np.ones for j in fpos):
            faults["F-cb-raise" if fm.startswith("raise") else ("F-cb-type" if fm.startswith("type") else "F-cb-shape")] += 1
            if exc is None:
                viol("faulty-factory-accepted", f"factory fault {fm} but the call returned {outcome.short(outcome.encode(result))}")
            continue
        # solve_shapes with None at the factory positions decides whether the call is determinable
        ins = desc.split("->")[0]
        ss = outcome.capture(lambda: einx.solve_shapes(ins, *[None if j in fpos else arrays[j] for j in range(len(arrays))], **{k: v for k, v in kw.items() if k not in ("backend", "shift")}))
        ref = outcome.capture(lambda: getattr(einx, d["op"])(desc, *[a.copy() for a in arrays], **kw))
        if exc is not None:
            stats["rejected"] += 1
            if is_runtime_error:
                if ref["kind"] != "exc":
                    viol("result-differs", f"fails at run time with {type(exc.__cause__).__name__ if exc.__cause__ else 'CallOperationError'} but the same call with the materialised tensors returns {outcome.short(ref)}")
            elif ss["kind"] == "py":
                viol("rejected-determinable", f"rejected with {type(exc).__name__} although solve_shapes resolves the inputs to {ss['value']} without the factory arguments")
            continue
        stats["executed"] += 1
        if ss["kind"] == "py":
            if all(tuple(ss["value"][j]) == tuple(arrays[j].shape) for j in range(len(arrays))):
                stats["solve_shapes_agree"] += 1
            else:
                viol("shape-vs-solve-shapes", f"solve_shapes reports {ss['value']} but the tensors have shapes {[a.shape for a in arrays]}")
        else:
            stats["solve_shapes_na"] += 1
        if sorted(per) != sorted(instr) or any(v != 1 for v in per.values()):
            viol("not-exactly-once", f"the call returned a value but the factories at {instr} were invoked {per}")
        got = outcome.encode(result)
        if not outcome.same(ref, got, exact=True):
            viol("result-differs", f"result {outcome.short(got)} differs from the same call with the materialised tensors {outcome.short(ref)}")
    for c in seams.WORLD.caches:
        try:
            ci = c.cache_info()
            if ci.maxsize is not None:
                faults["F-evict"] += max(0, ci.misses - ci.currsize)
        except Exception:
            pass
    res = {"stats": stats, "faults": faults, "probes": probes, "sigs": sorted(sigs), "log_full": log_all[:30],
           "log_sha": hashlib.sha256(json.dumps(log_all, sort_keys=True, default=str).encode()).hexdigest()}
    if bad:
        res.update(verdict="violation", klass=bad[0][0], detail=bad[0][1])
    elif known:
        res.update(verdict="known", klass=known[0][0], detail=known[0][1], known_sig=known[0][2])
    else:
        res["verdict"] = "ok"
    return res


def shrink_case(case, klass, cfg):
    def fails(c):
        r = exec_case(c, cfg)
        return r["verdict"] == cfg.get("want_verdict", "violation") and r.get("klass") == klass

    if not fails(case):
        return case
    ops = shrink.ddmin(case["ops"], lambda sub: fails(dict(case, ops=list(sub))), budget=150)
    return dict(case, ops=list(ops))


def plan(tier):
    n = 1200 if tier == "quick" else 24000
    envs = [{"hashseed": 0, "cache_size": -1}, {"hashseed": 0, "cache_size": 1}, {"hashseed": 0, "cache_size": 2}, {"hashseed": 0, "cache_size": 0}]
    return {"groups": [{"env": e, "indices": [i for i in range(n) if i % len(envs) == g]} for g, e in enumerate(envs)], "n_workers": 16, "chunk": 10 if tier == "quick" else 50,
            "wall_per_chunk": 900.0, "vacuity": ("executed", 1.0), "cfg": {"wall_per_run": 120}}


def describe(results, agg):
    return {
        "rule": "a run = one history of 4-25 operations over 1-4 generated base calls (11 op families) in which seeded subsets of the tensor arguments are instrumented factories of "
                "10 signature classes (positional, name=, keyword-only, **kwargs, callable object, functools.partial, numpy builtin, array-valued default, positional-only / var-positional "
                "parameters merely named like the optional keywords); run-unique axis names; operation kinds: exec, repeat with fresh factory objects and data (cache hit), graph=True, under-determined (only factories, no sizes), corrupted "
                "description; every third run injects raising / wrong-type (list, None, scalar, duck-typed object with matching .shape, memoryview, numpy scalar) / wrong-shape factories; cache size -1/0/1/2 per group. distinct_nontrivial = distinct (op, factory positions, "
                "signature classes, cache state, fault kind, operation kind) tuples judged",
        "logical_steps": agg["stats"].get("ops", 0),
        "scope_note": "the history / fault clauses (exactly-once across cold, cached, evicted, graph=True and rejected calls; misbehaving factory) are decided per history; the quantification over descriptions is sampled by the generator",
    }


ASSUMPTIONS = [
    "a rejected call is one that raises anything but einx.errors.CallOperationError (run-time failures are wrapped in CallOperationError and may legitimately have invoked factories)",
    "where the call with factories is accepted, the expected shape is the shape of the replaced tensor (the plain call is valid and the solution unique); solve_shapes with None at the factory positions is used as second opinion",
    "values are compared against einx itself with the materialised tensors (differential), numpy backends only",
]


def main(tier):
    from sim import campaign

    return campaign.run(MODULE, ID, tier, plan(tier), describe, ASSUMPTIONS)


def replay(path):
    from sim import campaign

    return campaign.replay(MODULE, ID, path, {})
