"""C16 - results are reproducible across processes, hash seeds and repeated calls (DESIGN §3.C16).

A seeded corpus of generated calls is executed (phase 1) by reference workers (PYTHONHASHSEED=0,
unbounded cache, every call from a reset world) and (phase 2) by one group of workers per variant
= (PYTHONHASHSEED value, EINX_CACHE_SIZE, own uuid4 stream, allocation noise, own execution order
and repetition count).  Per call the outcomes over all configurations must be the same, and two
graph=True requests inside one process must return identical text.
"""
import hashlib
import json
import os
import shutil
import subprocess
import sys
import time

from sim import outcome, rng, seams, shrink, workload

ID = "C16"
MODULE = "checks.c16_repro"
CHUNK = 25
VERIF = os.path.dirname(os.path.dirname(os.path.abspath(__file__)))
NAMES = list("abcdef")  # short names from a small alphabet: set order of {'e','f'} depends on the hash seed


def ref_dir(master):
    return os.path.join(VERIF, "replays", "c16_ref", str(master))


def gen_chunk(seed):
    r = rng.stream(seed, "c16-corpus")
    calls = workload.gen_corpus(r, CHUNK, pbad=0.2, pgraph=0.15, names=NAMES)
    for d in calls:  # some calls are made inside a with-block: the order / repetition of other calls must not matter for them either
        if r.random() < 0.12 and not d["op"].startswith(("solve", "matches")):
            d["ctx"] = r.choice([["numpy.einsum"], ["numpy.numpylike"], ["numpy", "numpy.einsum"]])
    return calls


def _execute(einx, d, state):
    import contextlib

    with contextlib.ExitStack() as es:
        for n in d.get("ctx", ()):
            es.enter_context(einx.backend.get(n))
        return workload.execute(einx, d, state)


def variant_plan(seed, variant, calls):
    """Execution list of one chunk under one variant: order, repetition, uuid seed, noise."""
    r = rng.stream(seed, f"c16-variant-{variant}")
    execs = []
    for k in range(len(calls)):
        execs += [k] * r.choice([1, 1, 2, 3])
    r.shuffle(execs)
    return {"execs": execs, "uuid_seed": r.randrange(1 << 30), "noise": [r.randrange(1 << 16) for _ in execs], "graph_twice": [r.random() < 0.3 for _ in execs]}


def worker_init(cfg):
    seams.bootstrap(warmup=True)
    return {}


def _exact(d):
    return d["op"] in workload.DATA_MOVING


def _noise(n):
    return [bytearray(64 + (n % 13)) for _ in range(n % 31)], [object() for _ in range(n % 977)]


def run_index(i, master, cfg):
    n_chunks = cfg["n_chunks"]
    variant, chunk = divmod(i, n_chunks)
    seed = rng.run_seed(ID, chunk, master)
    calls = gen_chunk(seed)
    einx = seams.WORLD.einx
    if cfg.get("phase") == "ref":
        outs = []
        nontrivial = []
        for d in calls:
            seams.reset_world(0)
            before = seams.uuid_draws()
            o = outcome.capture(lambda: _execute(einx, d, {}))
            outs.append(o)
            letters = {c for c in d["desc"] if c.isalpha()}
            nontrivial.append(bool(seams.uuid_draws() - before > 0 or len(letters) >= 2))
        os.makedirs(ref_dir(master), exist_ok=True)
        with open(os.path.join(ref_dir(master), f"{chunk}.json"), "w") as f:
            json.dump({"outcomes": outs, "nontrivial": nontrivial}, f)
        kinds = {}
        for o in outs:
            k = o["kind"] if o["kind"] != "exc" else o["cls"].split(".")[-1]
            kinds["ref_" + k] = kinds.get("ref_" + k, 0) + 1
        return {"verdict": "ok", "stats": dict(kinds, ref_calls=len(calls)), "sigs": [workload_sig(d) for d, nt in zip(calls, nontrivial) if nt],
                "log_sha": hashlib.sha256(json.dumps([outcome.short(o) for o in outs], sort_keys=True, default=str).encode()).hexdigest(),
                "case_sha": hashlib.sha1(json.dumps(calls, sort_keys=True).encode()).hexdigest()[:12]}
    ref = json.load(open(os.path.join(ref_dir(master), f"{chunk}.json")))
    vp = variant_plan(seed, variant, calls)
    case = {"seed": seed, "variant": variant, "chunk": chunk, "calls": [calls[k] for k in vp["execs"]], "uuid_seed": vp["uuid_seed"], "noise": vp["noise"],
            "graph_twice": vp["graph_twice"], "env": cfg.get("env", {}), "ref_env": {"hashseed": 0, "cache_size": -1}}
    res = run_sequence(case, [ref["outcomes"][k] for k in vp["execs"]], focus=None)
    res["case_sha"] = hashlib.sha1(json.dumps({k: v for k, v in case.items() if k != "env"}, sort_keys=True).encode()).hexdigest()[:12]
    if res["verdict"] != "ok":
        f = res.pop("focus")
        case["calls"] = case["calls"][: f + 1]
        case["noise"] = case["noise"][: f + 1]
        case["graph_twice"] = case["graph_twice"][: f + 1]
        case["focus"] = f
        res["case"] = case
    elif i % n_chunks < 2 and variant == 1:
        res["sample"] = {"variant": variant, "env": case["env"], "uuid_seed": case["uuid_seed"], "first_calls": [[d["op"], d["desc"], [t.get("shape") for t in d["tensors"]], d["kw"], d["graph"]] for d in case["calls"][:6]]}
    res.pop("focus", None)
    return res


def workload_sig(d):
    return hashlib.sha1(json.dumps([d["op"], d["desc"], [t.get("shape") for t in d["tensors"]], sorted(d["kw"])], sort_keys=True).encode()).hexdigest()[:12]


def run_sequence(case, refs, focus):
    """Execute case['calls'] in order in this process (one reset at the start: order, repetition and
    cache state are part of the variant).  refs[k] is the reference outcome of execution k (None =
    not judged).  Returns on the first mismatch."""
    einx = seams.WORLD.einx
    seams.reset_world(case["uuid_seed"])
    state = {}
    stats = {"executions": 0, "graph_pairs": 0, "float_tolerance_used": 0}
    probes = {"repeat_in_process": 0, "recompiled_graph_pair": 0}
    log = []
    seen = set()
    cs = case.get("env", {}).get("cache_size", -1)
    for k, d in enumerate(case["calls"]):
        keep = _noise(case["noise"][k])
        o = outcome.capture(lambda: _execute(einx, d, state))
        del keep
        stats["executions"] += 1
        sg = workload_sig(d)
        if sg in seen:
            probes["repeat_in_process"] += 1
        seen.add(sg)
        log.append(outcome.short(o))
        ref = refs[k]
        if ref is not None and (focus is None or k == focus):
            if not outcome.same(ref, o, exact=_exact(d), code="none"):
                klass = "cross-config-exception" if "exc" in (ref["kind"], o["kind"]) else "cross-config-value"
                return _fin(case, stats, probes, log, verdict="violation", klass=klass, focus=k, expected=outcome.short(ref), observed=outcome.short(o),
                            detail=f"{d['op']}({d['desc']!r}, shapes {[t.get('shape') for t in d['tensors']]}, kw {d['kw']}, graph={d['graph']}) under {case.get('env')} "
                                   f"(uuid seed {case['uuid_seed']}, execution {k} of the variant) gives {outcome.short(o)} but {outcome.short(ref)} under {case.get('ref_env')}")
            if o["kind"] == "val" and not outcome.same(ref, o, exact=True):
                stats["float_tolerance_used"] += 1
        if case["graph_twice"][k] and d["op"] not in ("solve_axes", "solve_shapes", "matches") and (focus is None or k == focus):
            g = dict(d, graph=True)
            a = outcome.capture(lambda: _execute(einx, g, state))
            keep = _noise(case["noise"][k] + 7)
            b = outcome.capture(lambda: _execute(einx, g, state))
            del keep
            stats["graph_pairs"] += 1
            if cs == 0:
                probes["recompiled_graph_pair"] += 1
            if not outcome.same(a, b, code="text"):
                return _fin(case, stats, probes, log, verdict="violation", klass="graph-text-unstable", focus=k, expected=outcome.short(a), observed=outcome.short(b),
                            detail=f"two graph=True requests for {d['op']}({d['desc']!r}) in one process ({case.get('env')}) returned different text:\n{a.get('text')}\n---\n{b.get('text')}")
    return _fin(case, stats, probes, log, verdict="ok")


def _fin(case, stats, probes, log, **kw):
    res = {"stats": stats, "probes": probes, "sigs": [], "log_sha": hashlib.sha256(json.dumps(log, sort_keys=True, default=str).encode()).hexdigest()}
    res.update(kw)
    return res


def reference_outcomes(calls, ref_env):
    """Fresh interpreter per call under the reference environment (replay / shrink path only)."""
    from sim import driver

    outs = []
    for d in calls:
        p = subprocess.run([sys.executable, os.path.join(VERIF, "sim", "refproc.py")], input=json.dumps({"items": [{"d": d, "ctx": d.get("ctx", [])}]}).encode(), capture_output=True,
                           env=driver.base_env(hashseed=ref_env.get("hashseed", 0), cache_size=ref_env.get("cache_size")), timeout=300)
        outs.append(json.loads(p.stdout)["outcomes"][0])
    return outs


def exec_case(case, cfg):
    f = case.get("focus", len(case["calls"]) - 1)
    refs = [None] * len(case["calls"])
    refs[f] = reference_outcomes([case["calls"][f]], case.get("ref_env", {"hashseed": 0}))[0]
    res = run_sequence(case, refs, focus=f)
    res.pop("focus", None)
    return res


def shrink_case(case, klass, cfg):
    def fails(c):
        r = exec_case(c, cfg)
        return r["verdict"] == "violation" and r.get("klass") == klass

    f = case.get("focus", len(case["calls"]) - 1)
    alone = dict(case, calls=[case["calls"][f]], noise=[case["noise"][f]], graph_twice=[case["graph_twice"][f]], focus=0)
    if fails(alone):
        return alone
    idx = list(range(f))

    def build(keep):
        keep = list(keep) + [f]
        return dict(case, calls=[case["calls"][k] for k in keep], noise=[case["noise"][k] for k in keep], graph_twice=[case["graph_twice"][k] for k in keep], focus=len(keep) - 1)

    keep = shrink.ddmin(idx, lambda sub: fails(build(sub)), budget=40)
    c = build(keep)
    return c if fails(c) else case


# ------------------------------------------------------------------------------------------------
def variants(tier):
    n = 8 if tier == "quick" else 32
    out = [{"hashseed": 0, "cache_size": 0}]  # same hash seed: every request recompiles with fresh uuids and addresses
    cs = [-1, 0, 1]
    for v in range(1, n):
        out.append({"hashseed": v * 7919 % 100003, "cache_size": cs[v % 3]})
    return out


def main(tier):
    from sim import campaign, driver

    t0 = time.time()
    master = rng.master_seed()
    n_chunks = 120 if tier == "quick" else 640
    mx = os.environ.get("VERIF_MAX_RUNS")
    if mx:
        n_chunks = min(n_chunks, int(mx))
    shutil.rmtree(ref_dir(master), ignore_errors=True)
    cfg = {"n_chunks": n_chunks, "phase": "ref", "wall_per_run": 300}
    print(f"[{ID}] phase 1: reference outcomes of {n_chunks * CHUNK} calls (PYTHONHASHSEED=0, every call from a reset world)", flush=True)
    res, errors, _ = driver.run_batch(MODULE, [{"env": {"hashseed": 0, "cache_size": -1}, "indices": list(range(n_chunks))}], master, cfg, n_workers=16, chunk=2, wall_per_chunk=900)
    if errors or len(res) != n_chunks:
        print(f"[{ID}] HARNESS-ERROR in the reference phase: {errors[:3]}")
        return 2
    ref_stats = {}
    ref_sigs = set()
    for r in res:
        for k, v in r["stats"].items():
            ref_stats[k] = ref_stats.get(k, 0) + v
        ref_sigs.update(r["sigs"])
    ok_refs = sum(v for k, v in ref_stats.items() if k in ("ref_val", "ref_code", "ref_map", "ref_py"))
    if ok_refs < 0.3 * ref_stats.get("ref_calls", 1):
        print(f"[{ID}] HARNESS-ERROR vacuous batch: only {ok_refs} of {ref_stats.get('ref_calls')} reference calls succeed - the tree under test or the generator is broken")
        return 2
    vs = variants(tier)
    groups = [{"env": v, "indices": [(k + 1) * n_chunks + c for c in range(n_chunks)]} for k, v in enumerate(vs)]
    plan = {"groups": groups, "n_workers": 16, "chunk": 4, "wall_per_chunk": 900.0, "cfg": {"n_chunks": n_chunks, "phase": "variant", "wall_per_run": 300}}
    os.environ.pop("VERIF_MAX_RUNS", None)

    def describe(results, agg):
        agg["sigs"].update(ref_sigs)
        return {
            "distinct_nontrivial": len(ref_sigs),
            "rule": f"corpus = {n_chunks} chunks x {CHUNK} generated calls ({len(set(workload.FAMILIES))} families incl. runs of unsized axes inside a composed axis, nested compositions, grouped / unnamed index axes and tensor factories, 20% corrupted - a third of those twice, incl. fractional / negative sizes - 15% graph=True); each chunk is executed by a reference worker "
                    f"(PYTHONHASHSEED=0) and by {len(vs)} variants = (PYTHONHASHSEED, EINX_CACHE_SIZE, uuid4 stream, allocation noise, execution order, 1-3 repetitions). evaluations = "
                    "chunk executions under a variant. distinct_nontrivial = distinct calls (op, description, shapes, keywords) whose reference execution drew at least one uuid4 "
                    "or whose description has at least two axis names (a set of >= 2 names can be iterated)",
            "reference_outcomes": ref_stats,
            "corpus_calls": n_chunks * CHUNK,
            "call_configurations": agg["stats"].get("executions", 0),
            "hash_seeds": sorted({v["hashseed"] for v in vs}),
            "logical_steps": agg["stats"].get("executions", 0),
            "reference_phase_wall_s": round(ref_wall, 1),
        }

    ref_wall = time.time() - t0
    rc = campaign.run(MODULE, ID, tier, plan, describe, ASSUMPTIONS)
    shutil.rmtree(ref_dir(master), ignore_errors=True)
    return rc


ASSUMPTIONS = [
    "PYTHONHASHSEED values are sampled (8 quick / 32 thorough); object addresses cannot be pinned and vary naturally plus through seeded allocation noise",
    "code text is compared only within one process (the property does not ask for equality across processes)",
    "only the numpy backends are installed",
]


def prepare_history_replay(hist):
    """A replay file that carries the history of a worker process re-executes whole runs, which read the
    reference outcomes of their chunks: regenerate those (they are removed at the end of every campaign)."""
    from sim import driver

    cfg = dict(hist["cfg"], phase="ref")
    chunks = sorted({i % cfg["n_chunks"] for g in hist["groups"] for i in g})
    res, errors, _ = driver.run_batch(MODULE, [{"env": {"hashseed": 0, "cache_size": -1}, "indices": chunks}], hist["master"], cfg, n_workers=16, chunk=2, wall_per_chunk=900)
    if errors or len(res) != len(chunks):
        raise RuntimeError(f"reference phase of the replay failed: {errors[:2]}")


def replay(path):
    from sim import campaign

    return campaign.replay(MODULE, ID, path, {})
