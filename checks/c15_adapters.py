"""C15 - adapted user functions follow loop-notation semantics; their outputs are checked (DESIGN §3.C15).

A callback protocol over a history: adapters (adapt_numpylike_reduce / adapt_numpylike_elementwise)
are created from a pool of instrumented numpy functions with keyword-only options and called through
seeded histories with structured descriptions; keyword values change between calls (new, repeated,
equal-but-differently-typed), axis names clash with keyword-only parameters, functions misbehave.
Oracle: the recorded callback arguments and an independent loop reference applying the same Python
function.  adapt_with_vmap needs a vmap framework and is unreachable here.
"""
import hashlib
import itertools
import json

import numpy as np

from sim import outcome, rng, seams, shrink, workload

ID = "C15"
MODULE = "checks.c15_adapters"
NAMES = list("abcdefgh")
REDUCERS = ["red_scale_sum", "red_max_init", "red_mean_dtype"]
ELEMENTWISE = ["el_axpy", "el_where", "el_clip"]
KWONLY = {"red_scale_sum": ["scale", "tag"], "red_max_init": ["initial"], "red_mean_dtype": ["dtype"], "el_axpy": ["alpha", "tag"], "el_where": [], "el_clip": ["lo", "hi"]}
NIN = {"el_axpy": 2, "el_where": 3, "el_clip": 1}
FAULTS = ["raise", "type-list", "type-none", "shape-unreduced", "shape-extra", "shape-transposed", "arity-tuple"]


# ------------------------------------------------------------------------------------------------
# the pool of pure numpy functions (pure: the reference applies the very same function)
# ------------------------------------------------------------------------------------------------
def pure(fn):
    if fn == "red_scale_sum":
        return lambda t, axis, *, scale=1, tag=None: np.asarray(np.sum(t, axis=axis) * (3 if scale is None else scale))  # None is a value of its own, not the default
    if fn == "red_max_init":
        return lambda t, axis, *, initial=None: np.asarray(np.max(t, axis=axis) if initial is None else np.max(t, axis=axis, initial=initial))
    if fn == "red_mean_dtype":
        return lambda t, axis, *, dtype=None: np.asarray(np.mean(t, axis=axis, dtype=dtype))
    if fn == "el_axpy":
        return lambda p, q, *, alpha=1, tag=None: np.asarray(p + (3 if alpha is None else alpha) * q)
    if fn == "el_where":
        return lambda c, p, q: np.asarray(np.where(c, p, q))
    if fn == "el_clip":
        return lambda p, *, lo=0, hi=10: np.asarray(np.clip(p, lo, hi))
    raise ValueError(fn)


def instrumented(fn, log, ctl):
    """Same signature as pure(fn) (keyword-only options included), records what it receives."""
    f = pure(fn)

    def misbehave(r, ts):
        m = ctl.get("fault")
        if m is None:
            return r
        ctl["fired"] = ctl.get("fired", 0) + 1
        if m == "raise":
            raise RuntimeError("user function failed (injected)")
        if m == "type-list":
            return np.asarray(r).tolist()
        if m == "type-none":
            return None
        if m == "shape-unreduced":
            return np.asarray(ts[0]) if np.asarray(ts[0]).shape != np.asarray(r).shape else np.asarray(r)[None]
        if m == "shape-extra":
            return np.asarray(r)[..., None]
        if m == "shape-transposed":
            r = np.asarray(r)
            return np.ascontiguousarray(r.T) if r.ndim >= 2 and r.T.shape != r.shape else r[None]
        if m == "arity-tuple":
            return (r, r)
        return r

    if fn == "red_scale_sum":
        def g(t, axis, *, scale=1, tag=None):
            log.append({"shapes": [tuple(t.shape)], "types": [type(t).__name__], "axis": axis, "kw": {"scale": scale, "tag": tag}})
            return misbehave(f(t, axis, scale=scale, tag=tag), [t])
    elif fn == "red_max_init":
        def g(t, axis, *, initial=None):
            log.append({"shapes": [tuple(t.shape)], "types": [type(t).__name__], "axis": axis, "kw": {"initial": initial}})
            return misbehave(f(t, axis, initial=initial), [t])
    elif fn == "red_mean_dtype":
        def g(t, axis, *, dtype=None):
            log.append({"shapes": [tuple(t.shape)], "types": [type(t).__name__], "axis": axis, "kw": {"dtype": dtype}})
            return misbehave(f(t, axis, dtype=dtype), [t])
    elif fn == "el_axpy":
        def g(p, q, *, alpha=1, tag=None):
            log.append({"shapes": [tuple(np.shape(p)), tuple(np.shape(q))], "types": [type(p).__name__, type(q).__name__], "kw": {"alpha": alpha, "tag": tag}})
            return misbehave(f(p, q, alpha=alpha, tag=tag), [p, q])
    elif fn == "el_where":
        def g(c, p, q):
            log.append({"shapes": [tuple(np.shape(c)), tuple(np.shape(p)), tuple(np.shape(q))], "types": [type(c).__name__, type(p).__name__, type(q).__name__], "kw": {}})
            return misbehave(f(c, p, q), [c, p, q])
    else:
        def g(p, *, lo=0, hi=10):
            log.append({"shapes": [tuple(np.shape(p))], "types": [type(p).__name__], "kw": {"lo": lo, "hi": hi}})
            return misbehave(f(p, lo=lo, hi=hi), [p])
    return g


# ------------------------------------------------------------------------------------------------
# generation
# ------------------------------------------------------------------------------------------------
def kw_values(r, fn):
    """Keyword-only option values for one call (JSON encoding of sim.workload.materialise_kw)."""
    def num():
        v = r.choice([1, 2, 3])
        c = r.random()
        if c < 0.06:
            return None  # an explicit None for a parameter whose default is not None
        if c < 0.12:
            return r.choice([-1, -2, -1, -2, -3])  # hash(-1) == hash(-2) in CPython
        if c < 0.18:
            return r.choice([-1.0, -2.0])
        if c < 0.26:
            return r.choice([0.0, -0.0])  # equal, same type, same hash - but not the same value for the function
        if c < 0.4:
            return v
        if c < 0.6:
            return float(v)
        if c < 0.7 and v == 1:
            return True
        if c < 0.85:
            return {"np": r.choice(["float32", "int64", "float64"]), "value": v}
        if c < 0.9:
            return {"np": "float32", "value": 0.1}  # not representable as a short decimal literal
        return v

    def tag():
        return r.choice([None, "x", "yy", {"tuple": [1, 2]}, {"tuple": [1.0, 2]}, {"tuple": ["a", {"tuple": [1]}]}, 5,
                         "a\\nb", 'q"uote', "it's", "new\nline", "\u03a3", "\U0001d6ba", {"tuple": ["back\\slash", 1]}])  # strings that need care when rendered into source text

    kw = {}
    if fn == "red_scale_sum":
        if r.random() < 0.8:
            kw["scale"] = num()
        if r.random() < 0.4:
            kw["tag"] = tag()
    elif fn == "red_max_init":
        if r.random() < 0.7:
            kw["initial"] = r.choice([None, 0, 2, 2.0, 100, {"np": "float32", "value": 2}])
    elif fn == "red_mean_dtype":
        if r.random() < 0.7:
            kw["dtype"] = r.choice([None, "float32", "float64"])
    elif fn == "el_axpy":
        if r.random() < 0.8:
            kw["alpha"] = num()
        if r.random() < 0.4:
            kw["tag"] = tag()
    elif fn == "el_clip":
        if r.random() < 0.7:
            kw["lo"] = r.choice([0, 1, 1.0, 2, None])  # np.clip: None = no bound
        if r.random() < 0.7:
            kw["hi"] = r.choice([3, 3.0, 5, {"np": "int64", "value": 4}, None])
    return kw


def gen_struct(r, kind, fn, names=NAMES):
    if kind == "reduce":
        k = r.randint(1, 4)
        nm = r.sample(names, k)
        ax = [[n, r.choice([1, 2, 2, 3, 4])] for n in nm]
        br = [n for n in nm if r.random() < 0.5]
        if not br and r.random() < 0.75:  # sometimes nothing is bracketed: the function must still run, with axis=()
            br = [nm[0]]
        groups = []
        i = 0
        while i < k:
            if r.random() < 0.3 and i + 1 < k:
                groups.append([i, i + 1])
                i += 2
            else:
                groups.append([i])
                i += 1
        keep = [n for n in nm if n not in br]
        out = keep[:]
        r.shuffle(out)
        return {"axes": ax, "br": br, "groups": groups, "explicit": r.random() < 0.6, "out": out, "dtype": r.choice(["int64", "float64"])}
    k = r.randint(1, 4)
    nm = r.sample(names, k)
    size = {n: r.choice([1, 2, 2, 3, 4]) for n in nm}
    ins = []
    for i in range(NIN[fn]):
        sub = [n for n in nm if r.random() < 0.7] if i > 0 else nm[:]
        r.shuffle(sub)
        ins.append(sub)
    out = nm[:]
    r.shuffle(out)
    return {"names": nm, "size": size, "ins": ins, "out": out, "explicit": r.random() < 0.65, "dtype": r.choice(["int64", "float64"])}


def gen_case(seed, cfg, index=0):
    r = rng.stream(seed, "c15")
    adapters = []
    for _ in range(r.randint(1, 3)):
        fn = r.choice(REDUCERS + ELEMENTWISE)
        adapters.append({"kind": "reduce" if fn in REDUCERS else "elementwise", "fn": fn})
    ops = []
    faulty_run = index % 3 == 2
    n = r.randint(4, 25)
    while len(ops) < n:
        c = r.random()
        if c < 0.45 and ops:
            # same adapter and description, (maybe) another keyword value: cache hit with a changed keyword
            prev = r.choice(ops)
            a = prev["a"]
            kw = kw_values(r, adapters[a]["fn"]) if r.random() < 0.8 else prev["kw"]
            if r.random() < 0.35:  # values that an imprecise cache key would conflate with the earlier call's
                kw = dict(prev["kw"])
                for k2, v2 in list(kw.items()):
                    if v2 is None or isinstance(v2, bool) or not isinstance(v2, int | float):
                        continue
                    if v2 in (-1, -2):
                        kw[k2] = type(v2)(-3 - v2)  # hash(-1) == hash(-2)
                    elif v2 == 0 and isinstance(v2, float):
                        kw[k2] = -v2  # 0.0 / -0.0
                    elif isinstance(v2, int):
                        kw[k2] = r.choice([float(v2), True if v2 == 1 else float(v2), -v2])
                    else:
                        kw[k2] = r.choice([int(v2) if v2 == int(v2) else -v2, -v2])
            op = {"a": a, "struct": prev["struct"], "kw": kw, "kind": "exec", "fault": None, "data_seed": r.randrange(1 << 20)}
        else:
            a = r.randrange(len(adapters))
            op = {"a": a, "struct": gen_struct(r, adapters[a]["kind"], adapters[a]["fn"]), "kw": kw_values(r, adapters[a]["fn"]), "kind": "exec", "fault": None, "data_seed": r.randrange(1 << 20)}
        k = r.random()
        fn = adapters[op["a"]]["fn"]
        if k < 0.12:
            op["kind"] = "graph"
        elif k < 0.22 and KWONLY[fn]:
            op["kind"] = "clash"  # an axis of the description is named like a keyword-only parameter
            op["clash"] = r.choice(KWONLY[fn])
        elif k < 0.27:
            op["kind"] = "unknown-kw"
        if faulty_run and op["kind"] == "exec" and r.random() < 0.3:
            op["fault"] = r.choice(FAULTS)
        ops.append(op)
    return {"seed": seed, "adapters": adapters, "ops": ops}


# ------------------------------------------------------------------------------------------------
# structure -> description, data, loop reference
# ------------------------------------------------------------------------------------------------
def mkdata(seed, shape, dtype):
    r = rng.stream(seed, "data")
    n = int(np.prod(shape)) if len(shape) else 1
    perm = list(range(1, n + 1))
    r.shuffle(perm)
    a = np.array(perm, dtype=np.int64).reshape(shape)
    if dtype == "float64":
        a = a.astype(np.float64) / 4.0
    if dtype == "bool":
        a = (a % 2).astype(bool)
    return a


def build_reduce(st, rename=None):
    rn = (lambda n: rename.get(n, n)) if rename else (lambda n: n)
    ax = st["axes"]
    br = set(st["br"])

    def tok(a):
        return f"[{rn(a[0])}]" if a[0] in br else rn(a[0])

    din = " ".join(tok(ax[g[0]]) if len(g) == 1 else "(" + " ".join(tok(ax[i]) for i in g) + ")" for g in st["groups"])
    keep = [a for a in ax if a[0] not in br]
    out = [n for n in st["out"]] if st["explicit"] else [a[0] for a in keep]
    desc = din + (" -> " + " ".join(rn(n) for n in out) if st["explicit"] else "")
    sizes = {rn(ax[g[0]][0]): ax[g[0]][1] for g in st["groups"] if len(g) > 1}
    full = tuple(s for _, s in ax)
    gshape = tuple(int(np.prod([ax[i][1] for i in g])) for g in st["groups"])
    return desc, sizes, full, gshape, keep, out


def ref_reduce(st, f, xfull, kw):
    ax = st["axes"]
    br = set(st["br"])
    k = len(ax)
    keepidx = [i for i, (nm, _) in enumerate(ax) if nm not in br]
    vals = {}
    for idx in itertools.product(*[range(ax[i][1]) for i in keepidx]):
        sl = [slice(None)] * k
        for i, v in zip(keepidx, idx):
            sl[i] = v
        sub = xfull[tuple(sl)]
        vals[idx] = np.asarray(f(sub, tuple(range(sub.ndim)), **kw))
    shape = tuple(ax[i][1] for i in keepidx)
    first = next(iter(vals.values()))
    exp = np.zeros(shape, dtype=first.dtype)
    for idx, v in vals.items():
        exp[idx] = v
    keepnames = [ax[i][0] for i in keepidx]
    if st["explicit"]:
        order = [keepnames.index(n) for n in st["out"]]
        exp = exp.transpose(order) if order else exp
    else:
        shp = []
        for g in st["groups"]:
            kept = [ax[i][1] for i in g if ax[i][0] not in br]
            if len(g) > 1:
                shp.append(int(np.prod(kept)) if kept else 1)
            elif kept:
                shp.append(kept[0])
        exp = exp.reshape(tuple(shp))
    return exp


def build_elementwise(st, rename=None):
    rn = (lambda n: rename.get(n, n)) if rename else (lambda n: n)
    desc = ", ".join(" ".join(rn(n) for n in sub) for sub in st["ins"]) + (" -> " + " ".join(rn(n) for n in st["out"]) if st["explicit"] else "")
    return desc


def ref_elementwise(st, f, xs, kw):
    size = st["size"]
    out = st["out"] if st["explicit"] else st["ins"][0]
    vals = {}
    for idx in itertools.product(*[range(size[n]) for n in out]):
        env = dict(zip(out, idx))
        sc = [x[tuple(env[n] for n in sub)] for x, sub in zip(xs, st["ins"])]
        vals[idx] = np.asarray(f(*sc, **kw))
    first = next(iter(vals.values()))
    exp = np.zeros(tuple(size[n] for n in out), dtype=first.dtype)
    for idx, v in vals.items():
        exp[idx] = v
    return exp


# ------------------------------------------------------------------------------------------------
def worker_init(cfg):
    seams.bootstrap(warmup=True)
    return {}


def run_index(i, master, cfg):
    seed = rng.run_seed(ID, i, master)
    case = gen_case(seed, cfg, i)
    res = exec_case(case, cfg)
    res["case_sha"] = hashlib.sha1(json.dumps(case, sort_keys=True).encode()).hexdigest()[:12]
    case["env"] = cfg.get("env", {})
    if res["verdict"] != "ok" or i < 2:
        res["case"] = case
    if i < 2:
        res["sample"] = {"adapters": case["adapters"], "log": res.get("log_full")}
    res.pop("log_full", None)
    return res


def _same_kw(passed, got):
    """type-exact and value-equal (tuples element-wise; the sign of a zero counts)."""
    if type(passed) is not type(got):
        return False
    if isinstance(passed, float) and passed == 0 and got == 0:
        return np.signbit(passed) == np.signbit(got)
    if isinstance(passed, tuple):
        return len(passed) == len(got) and all(_same_kw(a, b) for a, b in zip(passed, got))
    return passed == got


def exec_case(case, cfg):
    einx = seams.WORLD.einx
    seams.reset_world(case["seed"])
    stats = {"ops": 0, "executed": 0, "rejected_implicit": 0, "graph": 0, "clash": 0, "callback_invocations": 0, "kw_values_checked": 0, "unknown_kw_rejected": 0, "unknown_kw_accepted": 0}
    faults = {"F-cb-raise": 0, "F-cb-type": 0, "F-cb-shape": 0, "F-cb-arity": 0, "F-alias": 0}
    probes = {"cache_hit_changed_kw": 0, "cache_hit_equal_value_other_type": 0, "unit_axis_squeezed": 0, "kw_tuple_value": 0, "kw_none_value": 0, "implicit_output": 0, "numpy_scalar_kw_as_python_scalar": 0, "zero_d_argument_as_numpy_scalar": 0}
    sigs = set()
    log_all = []
    bad = []
    known = []
    ops_objs = []
    for a in case["adapters"]:
        log = []
        ctl = {}
        g = instrumented(a["fn"], log, ctl)
        adapt = einx.numpy.adapt_numpylike_reduce if a["kind"] == "reduce" else einx.numpy.adapt_numpylike_elementwise
        ops_objs.append((adapt(g), log, ctl, pure(a["fn"])))
    seen = {}
    for opi, op in enumerate(case["ops"]):
        stats["ops"] += 1
        a = case["adapters"][op["a"]]
        adapted, log, ctl, f = ops_objs[op["a"]]
        st = op["struct"]
        kind = op["kind"]
        kw_user = {k: workload.materialise_kw(v) for k, v in op["kw"].items()}
        rename = None
        if kind == "clash":
            victim = (st["axes"][0][0] if a["kind"] == "reduce" else st["names"][0])
            rename = {victim: op["clash"]}
        if a["kind"] == "reduce":
            desc, sizes, full, gshape, keep, out = build_reduce(st, rename)
            xfull = mkdata(op["data_seed"], full, st["dtype"])
            xs = [xfull.reshape(gshape)]
        else:
            desc = build_elementwise(st, rename)
            sizes = {}
            xs = []
            for j, sub in enumerate(st["ins"]):
                dt = "bool" if (a["fn"] == "el_where" and j == 0) else st["dtype"]
                xs.append(mkdata(op["data_seed"] + j, tuple(st["size"][n] for n in sub), dt))
        kw_call = dict(sizes)
        kw_call.update(kw_user)
        if kind == "unknown-kw":
            kw_call["zz"] = 3
        if kind == "graph":
            kw_call["graph"] = True
        ctl["fault"] = op.get("fault") if kind == "exec" else None
        ctl["fired"] = 0
        del log[:]
        try:
            result = adapted(desc, *[x.copy() for x in xs], **kw_call)
            exc = None
        except Exception as e:
            result, exc = None, e
        calls = list(log)
        stats["callback_invocations"] += len(calls)
        key = (op["a"], desc)
        state = "cold"
        if key in seen:
            state = "hit-same-kw" if seen[key] == repr(sorted(op["kw"].items())) else "hit-changed-kw"
            if state == "hit-changed-kw":
                probes["cache_hit_changed_kw"] += 1
                prevkw = seen.get((key, "vals"), {})
                for k2, v2 in kw_user.items():
                    if k2 in prevkw and type(prevkw[k2]) is not type(v2) and not isinstance(v2, tuple | str | type(None)) and not isinstance(prevkw[k2], tuple | str | type(None)):
                        try:
                            if prevkw[k2] == v2:
                                probes["cache_hit_equal_value_other_type"] += 1
                                faults["F-alias"] += 1
                        except Exception:
                            pass
        seen[key] = repr(sorted(op["kw"].items()))
        seen[(key, "vals")] = kw_user
        sigs.add(hashlib.sha1(repr((a["fn"], kind, state, op.get("fault"), st["explicit"], len(st.get("groups", [])) != len(st.get("axes", [])), sorted((k, type(v).__name__) for k, v in kw_user.items()))).encode()).hexdigest()[:12])
        log_all.append([opi, kind, a["fn"], desc, sorted(op["kw"]), len(calls), type(exc).__name__ if exc else "ok"])
        where = f"op {opi} ({kind}, {state}): {a['fn']} adapted, called with {desc!r}, shapes {[x.shape for x in xs]}, keywords {kw_call}"

        def viol(klass, msg):
            bad.append((klass, f"{where}: {msg}"))

        if len(calls) > 1:
            viol("invoked-twice", f"the user function was invoked {len(calls)} times")
        if kind == "graph":
            stats["graph"] += 1
            if calls:
                viol("invoked-on-graph", "graph=True invoked the user function")
            continue
        if kind == "clash":
            stats["clash"] += 1
            if exc is None or type(exc).__name__ != "SemanticError":
                viol("clash-not-rejected", f"axis name {op['clash']!r} is a keyword-only parameter of the function: expected SemanticError, got {type(exc).__name__ if exc else 'a result'}")
            if calls:
                viol("invoked-on-rejection", "rejected call invoked the user function")
            continue
        if kind == "unknown-kw":
            if exc is not None:
                stats["unknown_kw_rejected"] += 1
                if calls and type(exc).__name__ != "CallOperationError":
                    viol("invoked-on-rejection", f"rejected with {type(exc).__name__} but the user function was invoked")
            else:
                stats["unknown_kw_accepted"] += 1
            continue
        is_runtime_error = exc is not None and type(exc).__name__ == "CallOperationError"
        if exc is not None and not is_runtime_error:
            if calls:
                viol("invoked-on-rejection", f"rejected with {type(exc).__name__} but the user function was invoked")
            if a["kind"] == "elementwise" and not st["explicit"]:
                stats["rejected_implicit"] += 1  # an implicit output may legitimately be ambiguous
                continue
            viol("valid-call-rejected", f"rejected with {type(exc).__name__}: {str(exc)[-300:]}")
            continue
        if ctl["fault"]:
            if ctl["fired"]:
                m = ctl["fault"]
                faults["F-cb-raise" if m == "raise" else ("F-cb-type" if m.startswith("type") else ("F-cb-arity" if m.startswith("arity") else "F-cb-shape"))] += 1
                if exc is None:
                    viol("faulty-function-accepted", f"the user function misbehaved ({m}) but the call returned {outcome.short(outcome.encode(result))}")
            continue
        if exc is not None:
            viol("valid-call-fails", f"fails at run time: {str(exc)[-400:]}")
            continue
        stats["executed"] += 1
        if len(calls) != 1:
            viol("not-exactly-once", f"the call returned a value but the user function was invoked {len(calls)} times")
            continue
        c = calls[0]
        # keyword-only parameters: forwarded verbatim (type-exact, value-equal), never an axis size
        for k2, v2 in kw_user.items():
            stats["kw_values_checked"] += 1
            if isinstance(v2, tuple):
                probes["kw_tuple_value"] += 1
            if v2 is None:
                probes["kw_none_value"] += 1
            if k2 not in c["kw"] or not _same_kw(v2, c["kw"][k2]):
                got2 = c["kw"].get(k2)
                if isinstance(v2, np.generic) and type(got2) is type(v2.item()) and got2 == v2.item():
                    # numpy scalar rendered as a literal of the generated code: value-equal Python scalar (known finding)
                    known.append(("keyword-not-verbatim", f"{where}: passed {k2}={v2!r} ({type(v2).__name__}), the function received the equal Python scalar {got2!r} ({type(got2).__name__})", "numpy-scalar-kw-literalised"))
                    probes["numpy_scalar_kw_as_python_scalar"] += 1
                else:
                    viol("keyword-not-verbatim", f"passed {k2}={v2!r} ({type(v2).__name__}), the function received {got2!r} ({type(got2).__name__})")
        defaults = {"scale": 1, "tag": None, "initial": None, "dtype": None, "alpha": 1, "lo": 0, "hi": 10}
        for k2, v2 in c["kw"].items():
            if k2 not in kw_user and not _same_kw(defaults[k2], v2):
                viol("keyword-not-verbatim", f"{k2} was not passed but the function received {v2!r}")
        if any(t != "ndarray" for t in c["types"]):
            # a 0-d tensor may arrive as a numpy scalar (np.float64 ...): still a numpy tensor value for numpy functions
            if all(t == "ndarray" or t in ("float64", "int64", "bool", "bool_", "float32") for t in c["types"]) and all(s == () for s, t in zip(c["shapes"], c["types"]) if t != "ndarray"):
                probes["zero_d_argument_as_numpy_scalar"] += 1
            else:
                viol("argument-type", f"the function received {c['types']}")
        if a["kind"] == "reduce":
            axis = c["axis"]
            shp = c["shapes"][0]
            brsizes = sorted(s for n, s in st["axes"] if n in st["br"] and s != 1)
            if not (isinstance(axis, tuple) and all(type(x) is int for x in axis)):
                viol("axis-argument", f"axis={axis!r} is not a tuple of Python ints")
            elif not all(0 <= x < len(shp) for x in axis) or len(set(axis)) != len(axis) or list(axis) != sorted(axis):
                viol("axis-argument", f"axis={axis} is not an increasing tuple of positions of a tensor of shape {shp}")
            elif sorted(shp[x] for x in axis if shp[x] != 1) != brsizes or int(np.prod(shp)) != int(np.prod([s for _, s in st["axes"]])):
                viol("axis-argument", f"tensor of shape {shp} with axis={axis} does not describe the bracketed axes {st['br']} of {st['axes']}")
            if len(shp) < len(st["axes"]):
                probes["unit_axis_squeezed"] += 1
            exp = ref_reduce(st, f, xfull, kw_user)
        else:
            ranks = {len(s) for s in c["shapes"]}
            if len(ranks) != 1:
                viol("rank-alignment", f"the function received tensors of different rank: {c['shapes']}")
            else:
                try:
                    np.broadcast_shapes(*c["shapes"])
                except ValueError:
                    viol("rank-alignment", f"the function received tensors that do not broadcast: {c['shapes']}")
            if not st["explicit"]:
                probes["implicit_output"] += 1
            exp = ref_elementwise(st, f, xs, kw_user)
        got = np.asarray(result)
        if got.shape != exp.shape or not np.allclose(got.astype(np.float64), exp.astype(np.float64), rtol=1e-6 if got.dtype == np.float32 else 1e-9, atol=1e-12):
            viol("value", f"result (shape {got.shape}) {got.reshape(-1)[:8].tolist()} differs from the loop reference (shape {exp.shape}) {exp.reshape(-1)[:8].tolist()}")
        elif got.dtype != exp.dtype:
            viol("dtype", f"result dtype {got.dtype}, loop reference with the same function gives {exp.dtype}")
    res = {"stats": stats, "faults": faults, "probes": probes, "sigs": sorted(sigs), "log_full": log_all[:30],
           "log_sha": hashlib.sha256(json.dumps(log_all, sort_keys=True, default=str).encode()).hexdigest()}
    if bad:
        res.update(verdict="violation", klass=bad[0][0], detail=bad[0][1])
    elif known:
        res.update(verdict="known", klass=known[0][0], detail=known[0][1], known_sig=known[0][2])
    else:
        res["verdict"] = "ok"
    return res


def shrink_case(case, klass, cfg):
    def fails(c):
        r = exec_case(c, cfg)
        return r["verdict"] == cfg.get("want_verdict", "violation") and r.get("klass") == klass

    if not fails(case):
        return case
    ops = shrink.ddmin(case["ops"], lambda sub: fails(dict(case, ops=list(sub))), budget=150)
    return dict(case, ops=list(ops))


def plan(tier):
    n = 3200 if tier == "quick" else 40000
    envs = [{"hashseed": 0, "cache_size": -1}, {"hashseed": 0, "cache_size": 2}, {"hashseed": 0, "cache_size": -1, "warn": 1}, {"hashseed": 0, "cache_size": 0}]
    return {"groups": [{"env": e, "indices": [i for i in range(n) if i % len(envs) == g]} for g, e in enumerate(envs)], "n_workers": 16, "chunk": 10 if tier == "quick" else 50,
            "wall_per_chunk": 900.0, "vacuity": ("executed", 1.0), "cfg": {"wall_per_run": 120}}


def describe(results, agg):
    return {
        "rule": "a run = 1-3 adapters (3 reduce and 3 element-wise numpy functions with keyword-only options, instrumented) + a history of 4-25 calls with structured descriptions "
                "(axis lists with sizes, bracket sets incl. the empty one, parenthesised groups, output permutations, implicit/explicit outputs); 45% of the calls repeat an earlier description with new / "
                "repeated / equal-but-differently-typed / hash-colliding (-1 vs -2, 0.0 vs -0.0) keyword values; kinds: exec, graph=True, axis-name clash, unknown keyword; every third run makes functions misbehave. "
                "distinct_nontrivial = distinct (function, call kind, cache state, fault, output style, grouping, keyword names and types) tuples judged",
        "logical_steps": agg["stats"].get("ops", 0),
        "scope_note": "history / fault clauses are decided per history, the quantification over descriptions and shapes is sampled by the generator; adapt_with_vmap is not reachable (no vmap framework installed)",
    }


ASSUMPTIONS = [
    "adapt_with_vmap (third of the statement) cannot be exercised: numpy has no vmap and torch/jax are not installed",
    "the loop reference (explicit loops applying the same pure Python function to sub-tensors / scalars) is the trusted oracle for values",
    "container-valued keywords are generated as tuples only: einx freezes lists / arrays into tuples for its cache key by design (value equality still holds)",
    "an implicit element-wise output may legitimately be rejected as ambiguous; such rejections are counted, not judged",
]


def main(tier):
    from sim import campaign

    return campaign.run(MODULE, ID, tier, plan(tier), describe, ASSUMPTIONS)


def replay(path):
    from sim import campaign

    return campaign.replay(MODULE, ID, path, {})
