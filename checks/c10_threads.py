"""C10 - concurrent use from several threads behaves like some serial order (DESIGN §3.C10).

2-3 real caller threads run short programs of einx calls (some compiling for the first time),
with-blocks, backend lookups, lazy imports and registrations under the baton scheduler of
sim/sched.py; the recorded history is checked for a witness sequential order against einx's own
functional registry code (BackendRegistryState) stepped single-threaded, plus final-state equality,
deadlock detection and a step cap.
"""
import hashlib
import json
import sys
import types

from sim import linearize, rng, sched, seams, shrink

ID = "C10"
MODULE = "checks.c10_threads"
TRIO = ["numpy", "numpy.einsum", "numpy.numpylike"]

# call menu: chosen so that the observable identifies the backend that ran it (see c11 fingerprint)
MENU = [
    ("sum", "a [b]", ["x"], {}, True),
    ("dot", "a b, c b -> a c", ["x", "x"], {}, True),
    ("min", "a [b]", ["x"], {}, False),
    ("add", "a b, b", ["x", "r"], {}, False),
    ("id", "a (b c) -> c a b", ["x"], {"c": 3}, False),
    ("sum", "a [b]", ["x"], {}, False),
    ("multiply", "a b, b -> b a", ["x", "r"], {}, False),
    ("dot", "a [b], c [b] -> a c", ["x", "x"], {}, False),
    ("sum", "[a] b", ["x"], {}, True),
    ("id", "a b -> b a", ["x"], {}, True),
    # adapters created once per run and shared by the threads (each adapter has its own compile cache and never consults the registry)
    ("adapt:red_sum_scale", "a [b]", ["x"], {"scale": 2}, False),
    ("adapt:el_axpy", "a b, b", ["x", "r"], {"alpha": 3}, False),
    ("solve_axes", "a b, b", ["x", "r"], {}, False),
    # the same axis names in another order / other names: per-call scratch state of the translation (e.g. einsum letters) must not leak between threads
    ("dot", "b a, b -> a", ["x", "c2"], {}, False),
    ("dot", "c a, c -> a", ["x", "c2"], {}, True),
    ("sum", "b [a]", ["x"], {}, True),
    ("multiply", "b a, a -> a b", ["x", "r"], {}, False),
]


_FILES = []


def einx_files():
    """Source files of the tree under test that take part in a call (relative to einx/), in a fixed order."""
    if not _FILES:
        import os

        root = os.path.join(seams.REPO, "einx")
        for d, _, fs in sorted(os.walk(os.path.join(root, "_src"))):
            rel = os.path.relpath(d, root)
            if any(x in rel for x in ("frontend/impl", "adapter/torch", "adapter/jax", "adapter/mlx", "adapter/tensorflow", "adapter/tinygrad", "adapter/functorchdim", "adapter/arrayapi")):
                continue
            for f in sorted(fs):
                if f.endswith(".py") and f != "__init__.py" or (f == "__init__.py" and "compiler/python" in rel):
                    _FILES.append(os.path.join(rel, f))
        _FILES.append("_src/frontend/impl/numpy.py")
    return _FILES


# ------------------------------------------------------------------------------------------------
# generation
# ------------------------------------------------------------------------------------------------
def gen_case(seed, cfg, index=0):
    r = rng.stream(seed, "c10")
    nthreads = r.choice([2, 2, 2, 3])
    mode = r.random()
    nfake = r.choice([0, 1, 1, 2])
    fakes = []
    tag = rng.tag(seed)
    for k in range(nfake):
        fakes.append({"mod": f"fw_{tag}_{k}", "backends": [{"name": f"fw{k}" if j == 0 else f"fw{k}.x{j}", "prio": r.choice([-5, 0, 0, 1, 3]), "healthy": r.random() < 0.8,
                                                           "reentrant": r.random() < 0.5}  # the factory itself makes an einx call (runs under the registry lock)
                                                          for j in range(r.randint(1, 2))]})
    threads = []
    used_calls = set()
    for t in range(nthreads):
        prog = []
        n_items = r.randint(1, 3)
        for _ in range(n_items):
            c = r.random()

            def call():
                # threads of one program tend to make the same calls: a first-time compilation of one key by two threads at once
                cid = r.choice(sorted(used_calls)) if used_calls and r.random() < 0.4 else r.randrange(len(MENU))
                used_calls.add(cid)
                b = None if r.random() < 0.8 else r.choice(TRIO)
                return ["call", cid, b]

            if c < 0.30:
                b = r.choice(TRIO[1:] if r.random() < 0.8 else TRIO)
                prog.append(["enter", b])
                for _ in range(r.randint(1, 2)):
                    prog.append(call() if r.random() < 0.8 else ["get", None])
                prog.append(["exit", b])
            elif c < 0.52:
                prog.append(call())
            elif c < 0.58:
                prog.append(["stack", r.randrange(2), r.randint(1, 2)])  # thread-local device / namespace stack wrappers
            elif c < 0.66:
                prog.append(["get", r.choice(TRIO + ["nope", "nope"] + [b["name"] for f in fakes for b in f["backends"]])])
            elif c < 0.78:
                ts = [r.choice(["nd", "U", "U"] + [f"T:{k}" for k in range(nfake)]) for _ in range(r.randint(1, 2))]
                prog.append(["gett", ts])
            elif c < 0.90 or not fakes:
                prog.append(["import", r.randrange(nfake + 2)])  # the last two modules carry no backend
            elif c < 0.96:
                k = r.randrange(nfake)
                prog.append(["regimp", k, r.randrange(len(fakes[k]["backends"]))])
            else:
                k = r.randrange(nfake)
                prog.append(["reg", k, r.randrange(len(fakes[k]["backends"]))])
        threads.append(prog[:6])
    if r.random() < 0.3:
        # per-operation shared state: one thread repeats a call (most recent key of that operation), another thread makes a call of the
        # SAME einx operation with a different key; one of them is parked somewhere inside the registry / cache / api code
        by_op = {}
        for cid, m_ in enumerate(MENU):
            by_op.setdefault(m_[0], []).append(cid)
        op_ = r.choice(sorted(o for o, c in by_op.items() if len(c) >= 2))
        c1, c2 = r.sample(by_op[op_], 2)
        threads = [[["call", c1, None], ["call", c1, None]], [["call", c2, None]]]
        if nthreads == 3:
            threads.append([["call", c2, None], ["call", c1, None]])
        used_calls = {c1, c2}
        policy_override = {"kind": "stall", "file": r.choice(["_src/util/lru_cache.py", "_src/frontend/api.py", "_src/frontend/backend.py"]), "k": r.randint(1, 220), "m": r.choice([3, 8, 20]),
                           "p": r.choice([0.01, 0.003]), "seed": r.randrange(1 << 30)}
        mode = 0.0  # everything warm: the window is in the cached path
    else:
        policy_override = None
    warm_override = None
    cs = (cfg.get("env") or {}).get("cache_size")
    if cs and cs > 0 and r.random() < 0.3:
        # bounded cache (EINX_CACHE_SIZE > 0): a cached call on the least recently used entry in one thread, a first-time call in another
        # (its store evicts an entry), the former parked somewhere inside the cache code
        n_fill = max(0, r.choice([cs - 1, cs - 1, cs, cs - 2]))
        cids = r.sample(range(len(MENU)), n_fill + 2)
        c1, c2, fill = cids[0], cids[1], cids[2:]
        threads = [[["call", c1, None]] * r.choice([1, 2]), [["call", c2, None]]]
        if nthreads == 3:
            threads.append([["call", r.choice(fill + [c1, c2]), None]])
        used_calls = set(cids)
        warm_override = [c1] + fill  # warmed in this order: c1 is the oldest entry when the threads start
        policy_override = {"kind": "stall", "file": "_src/util/lru_cache.py", "k": r.randint(1, 110), "m": r.choice([3, 8, 20]), "p": r.choice([0.01, 0.003]), "seed": r.randrange(1 << 30)}
    used = sorted(used_calls)
    if warm_override is not None:
        warm = warm_override
    elif mode < 0.5:
        warm = used
    elif mode < 0.85:
        warm = [c for c in used if r.random() < 0.6]
    else:
        warm = []
    pk = r.random()
    if pk < 0.3:
        # targeted: park one thread inside some function of a random einx file until another thread has passed through the same function
        policy = {"kind": "stall", "file": r.choice(einx_files()), "k": int(10 ** r.uniform(0, 1.8)), "m": r.choice([5, 20, 60]), "p": r.choice([0.03, 0.01, 0.003]), "seed": r.randrange(1 << 30)}
    elif pk < 0.75:
        policy = {"kind": "random", "p": r.choice([0.3, 0.1, 0.03, 0.01, 0.003]), "seed": r.randrange(1 << 30)}
    else:
        d = r.choice([1, 2, 3])
        pts = [[f"T{r.randrange(nthreads)}", int(10 ** r.uniform(0, 4.6))] for _ in range(d)]
        policy = {"kind": "pct", "points": pts, "seed": r.randrange(1 << 30)}
    if policy_override:
        policy = policy_override
    return {"seed": seed, "threads": threads, "warm": warm, "warm_backends": ["numpy"] if warm_override is not None else None, "fakes": fakes, "policy": policy, "opcode": r.random() < float(cfg.get("opcode_p", 0.0)) and False}  # opcode granularity is disabled: see DESIGN §7.5 (not replayable on CPython 3.12)


# ------------------------------------------------------------------------------------------------
# worker side
# ------------------------------------------------------------------------------------------------
W = types.SimpleNamespace(table=None, x=None, r=None, c2=None, back=None, stacks=None, adapters=None, tag="")


def worker_init(cfg):
    import numpy as np

    einx = seams.bootstrap(warmup=True)
    W.x = np.arange(1.0, 7.0).reshape(2, 3)
    W.r = np.arange(1.0, 4.0)
    W.c2 = np.arange(1.0, 3.0)
    seams.reset_world(0)
    W.back = {n: einx.backend.get(n) for n in TRIO}
    # single-threaded outcome table: every menu call under every numpy backend, given as object
    W.table = {}
    _fresh_adapters()
    for cid in range(len(MENU)):
        for n in TRIO:
            W.table[(cid, n)] = _outcome(lambda: _do_call(cid, W.back[n]))
    W.tag = "_t9"
    _fresh_adapters()
    for cid in range(len(MENU)):  # the table must not depend on the axis names: runs use run-unique ones
        for n in TRIO:
            if _outcome(lambda: _do_call(cid, W.back[n])) != W.table[(cid, n)]:
                raise RuntimeError(f"outcome of menu call {cid} under {n} depends on the axis names")
    W.tag = ""
    seams.reset_world(0)
    from einx._src.adapter.arrayapi.namespacestack import ArrayApiNamespaceStack
    from einx._src.adapter.torch.devicestack import TorchDeviceStack

    W.stacks = [(TorchDeviceStack(), "get_device"), (ArrayApiNamespaceStack(), "get_xp")]  # process-global instances, as in impl/torch.py and impl/arrayapi.py
    return {"einx": einx.__file__, "table": {f"{k[0]}|{k[1]}": v for k, v in W.table.items()}}


def _digest(r):
    import numpy as np

    if isinstance(r, str):
        return ["code", hashlib.sha1(r.encode()).hexdigest()[:12]]
    if isinstance(r, list):
        return ["py", r]
    a = np.asarray(r)
    return ["val", list(a.shape), str(a.dtype), hashlib.sha1(np.ascontiguousarray(a).tobytes()).hexdigest()[:12]]


def _outcome(f):
    try:
        return _digest(f())
    except Exception as e:
        return ["exc", type(e).__name__]


import re as _re

_AXIS = _re.compile(r"\b([abc])\b")


def _do_call(cid, backend):
    einx = seams.WORLD.einx
    op, desc, args, kw, graph = MENU[cid]
    ts = [W.x if a == "x" else (W.c2 if a == "c2" else W.r) for a in args]
    kw = dict(kw)
    if W.tag:  # run-unique axis names: every run compiles from scratch whatever the cache implementation of the tree under test
        desc = _AXIS.sub(lambda m: m.group(1) + W.tag, desc)
        kw = {(k + W.tag if k in ("a", "b", "c") else k): v for k, v in kw.items()}
    if op.startswith("adapt:"):
        return W.adapters[op[6:]](desc, *ts, **kw)
    if op == "solve_axes":
        return sorted((k[: -len(W.tag)] if W.tag and k.endswith(W.tag) else k, int(v)) for k, v in einx.solve_axes(desc, *ts).items())
    if backend is not None:
        kw["backend"] = backend
    if graph:
        kw["graph"] = True
    return getattr(einx, op)(desc, *ts, **kw)


def _fresh_adapters():
    from sim import workload

    W.adapters = {}
    st = {}
    for name in ("red_sum_scale", "el_axpy"):
        W.adapters[name] = workload.get_adapter(seams.WORLD.einx, name, st)


class World:
    """Per-run objects shared by the real execution and the sequential spec."""

    def __init__(self, case):
        B = seams.WORLD.B
        self.case = case
        self.classes = [type("Tensor", (), {"__module__": case["fakes"][k]["mod"]}) for k in range(len(case["fakes"]))]  # same __name__, different classes
        self.U = type("U", (), {})
        self.eager = {}
        for k, f in enumerate(case["fakes"]):
            for j, b in enumerate(f["backends"]):
                self.eager[(k, j)] = (self._mk(b, self.classes[k]) if b["healthy"] else B.InvalidBackend(b["name"] + ".e", "bad", priority=b["prio"]))
        self.mods = [f["mod"] for f in case["fakes"]]
        base = "fw_" + rng.tag(case["seed"])
        self.mods += [base + "_x0", base + "_x1"]

    def _mk(self, b, cls, suffix=".e"):
        B = seams.WORLD.B
        return B.Backend(ops={}, name=b["name"] + suffix, priority=b["prio"], optimizations=[], compiler=None,
                         is_supported_tensor=lambda t, cls=cls: isinstance(t, cls), get_shape=lambda t: ())

    def factory(self, k, j):
        b = self.case["fakes"][k]["backends"][j]
        cls = self.classes[k]

        def f():
            if b.get("reentrant"):
                _outcome(lambda: _do_call(5, W.back["numpy"]))  # user code of a backend factory may use einx itself
            if not b["healthy"]:
                raise ImportError("boom " + b["name"])
            return self._mk(b, cls, suffix="")

        return f

    def tensors(self, spec):
        import numpy as np

        return [np.zeros(2) if t == "nd" else (self.U() if t == "U" else self.classes[int(t[2:])]()) for t in spec]


def real_op(world, op):
    """The operation as a caller thread performs it on the global registry."""
    einx = seams.WORLD.einx
    reg = seams.WORLD.registry
    kind = op[0]
    if kind == "call":
        return lambda: _outcome(lambda: _do_call(op[1], op[2]))
    if kind == "enter":
        return lambda: _outcome_ok(lambda: W.back[op[1]].__enter__())
    if kind == "exit":
        return lambda: _outcome_ok(lambda: W.back[op[1]].__exit__(None, None, None))
    if kind == "get":
        return lambda: _outcome_obj(lambda: einx.backend.get(op[1]) if op[1] is not None else einx.backend.get(None, [W.x]))
    if kind == "gett":
        return lambda: _outcome_obj(lambda: reg.get(None, world.tensors(op[1])))
    if kind == "stack":
        return lambda: _stack_op(op[1], op[2])
    if kind == "import":
        def imp():
            sys.modules[world.mods[op[1]]] = types.ModuleType(world.mods[op[1]])
            return ["ok"]
        return imp
    if kind == "regimp":
        b = world.case["fakes"][op[1]]["backends"][op[2]]
        return lambda: _outcome_ok(lambda: reg.register_on_import(world.mods[op[1]], b["name"], world.factory(op[1], op[2])))
    if kind == "reg":
        return lambda: _outcome_ok(lambda: reg.register(world.eager[(op[1], op[2])]))
    raise ValueError(op)


def _stack_op(which, depth):
    """A stub inner operation wrapped by the (process-global) thread-local stack: while it runs, the
    top of the stack must be the entry derived from this thread's own tensors, whatever other threads do."""
    import einx._src.tracer as tracer
    from einx._src.tracer.graph import depends_on

    ds, getter = W.stacks[which]
    seen = []

    def level(d):
        t = tracer.signature.classical.Tensor(None, shape=(2,))

        def stub(*tensors, out, **kw):
            if d > 1:
                level(d - 1)
            top = getattr(ds, getter)()
            seen.append(bool(depends_on(top, t)))

        stub.__name__ = "stub"
        ds.namedtensor.op(stub)(types.SimpleNamespace(value=t), out=None)

    try:
        level(depth)
    except Exception as e:
        return ["exc", type(e).__name__]
    return ["own"] if all(seen) and len(seen) == depth else ["foreign", seen]


def _outcome_ok(f):
    try:
        f()
        return ["ok"]
    except Exception as e:
        return ["exc", type(e).__name__]


def _outcome_obj(f):
    try:
        return ["obj", f().name]
    except Exception as e:
        return ["exc", type(e).__name__]


# ---- sequential specification: einx's own functional registry code ------------------------------
def clone_state(st):
    B = seams.WORLD.B
    n = B.BackendRegistryState(st)
    n.uninitialized_backends = {k: list(v) for k, v in n.uninitialized_backends.items()}
    return n


def state_key(st, imported):
    return (tuple(b.name for b in st.use_stack), tuple(sorted(st.name_to_backend)), tuple(sorted((m, tuple(n for n, _ in l)) for m, l in st.uninitialized_backends.items() if m.startswith("fw_"))),
            tuple(sorted((tuple(f"{getattr(t, '__module__', '')}.{getattr(t, '__name__', t)}" for t in (k if isinstance(k, tuple) else (k,))), v.name) for k, v in st.tensortypes_to_backend.items())), tuple(sorted(m for m in st.seen_module_names if m.startswith("fw_"))),
            tuple(sorted(imported)))


def make_spec(world):
    def set_modules(imported):
        for m in world.mods:
            if m in imported:
                sys.modules.setdefault(m, types.ModuleType(m))
            else:
                sys.modules.pop(m, None)

    def spec_step(state, op):
        st, imported = state
        st = clone_state(st)
        set_modules(imported)
        kind = op[0]
        try:
            if kind == "call" and MENU[op[1]][0].startswith(("adapt:", "solve_")):
                st2, out = st, W.table[(op[1], "numpy")]  # fixed backend / no backend: the registry is not consulted
            elif kind == "call":
                st2, b = st.get(op[2], [W.x] * len(MENU[op[1]][2]))
                b.raise_on_import_failure()
                out = W.table.get((op[1], b.name), ["exc", "?"])
            elif kind == "enter":
                st2, out = st.enter(W.back[op[1]]), ["ok"]
            elif kind == "exit":
                st2, out = st.exit(W.back[op[1]]), ["ok"]
            elif kind == "get":
                st2, b = st.get(op[1], None if op[1] is not None else [W.x])
                out = ["obj", b.name]
            elif kind == "gett":
                st2, b = st.get(None, world.tensors(op[1]))
                out = ["obj", b.name]
            elif kind == "stack":
                st2, out = st, ["own"]  # thread-local by contract: independent of everything else
            elif kind == "import":
                st2, out = st, ["ok"]
                imported = imported | {world.mods[op[1]]}
            elif kind == "regimp":
                b = world.case["fakes"][op[1]]["backends"][op[2]]
                st2, out = st.register_on_import(world.mods[op[1]], b["name"], world.factory(op[1], op[2])), ["ok"]
            elif kind == "reg":
                st2, out = st.register(world.eager[(op[1], op[2])]), ["ok"]
            else:
                raise ValueError(op)
        except Exception as e:
            st2, out = st, ["exc", type(e).__name__]
        return (st2, imported), out, state_key(st2, imported)

    return spec_step, set_modules


def observable_state(st):
    return {"use_stack": [b.name for b in st.use_stack], "registered": sorted(st.name_to_backend),
            "uninitialized": sorted((m, [n for n, _ in l]) for m, l in st.uninitialized_backends.items() if m.startswith("fw_"))}


# ------------------------------------------------------------------------------------------------
def run_index(i, master, cfg):
    seed = rng.run_seed(ID, i, master)
    case = gen_case(seed, cfg, i)
    case["env"] = cfg.get("env", {})
    res = exec_case(case, cfg)
    res["case_sha"] = hashlib.sha1(json.dumps({k: v for k, v in case.items() if k != "env"}, sort_keys=True).encode()).hexdigest()[:12]
    if res["verdict"] != "ok":
        # replay files carry the recorded schedule, not the PRNG that produced it
        rc = dict(case)
        rc["policy"] = {"kind": "replay", "switches": res.pop("switches")}
        rc["generated_policy"] = case["policy"]
        res["case"] = rc
    elif i < 3:
        res["sample"] = {"case": case, "events": res.get("events_full"), "witness": res.get("witness"), "switches": res.get("switches", [])[:30]}
    res.pop("switches", None)
    res.pop("events_full", None)
    return res


def exec_case(case, cfg):
    einx = seams.WORLD.einx
    seams.reset_world(case["seed"])
    W.tag = "_" + rng.tag(case["seed"])[:6]
    world = World(case)
    for m in world.mods:
        sys.modules.pop(m, None)
    _fresh_adapters()
    # warm prefix: single-threaded, under every numpy backend
    for cid in case.get("warm", []):
        for n in case.get("warm_backends") or TRIO:
            _outcome(lambda: _do_call(cid, W.back[n]))
    seams.WORLD.registry.state = seams.WORLD.initial_state
    init = clone_state(seams.WORLD.initial_state)
    pol = case["policy"]
    if pol["kind"] == "random":
        policy = sched.RandomPolicy(rng.stream(pol["seed"], "sched"), pol["p"])
    elif pol["kind"] == "stall":
        policy = sched.RandomPolicy(rng.stream(pol["seed"], "sched"), pol["p"])
    elif pol["kind"] == "pct":
        policy = sched.PCTPolicy(rng.stream(pol["seed"], "sched"), pol["points"])
    else:
        policy = sched.ReplayPolicy(pol["switches"])
    opcode_files = ("frontend/backend.py", "tracer/graph.py", "util/lru_cache.py") if case.get("opcode") else ()
    s = sched.Scheduler(policy, seams.einx_dir(), opcode_files=opcode_files, step_cap=cfg.get("step_cap", 2_000_000),
                        hot=("frontend/backend.py", "tracer/graph.py", "util/lru_cache.py", "frontend/api.py", "adapter/torch/devicestack.py", "adapter/arrayapi/namespacestack.py"))
    if pol["kind"] == "stall":
        s.stall = sched.Stall(pol["file"], pol["k"], pol["m"])
    ops_by = {}
    programs = []
    for t, prog in enumerate(case["threads"]):
        p = []
        for idx, op in enumerate(prog):
            ops_by[(f"T{t}", idx)] = op
            p.append(real_op(world, op))
        programs.append(p)
    try:
        events = s.run(programs)
        final_real = observable_state(seams.WORLD.registry.state)
    finally:
        for m in world.mods:
            sys.modules.pop(m, None)
    for e in events:
        e["op"] = ops_by[(e["thread"], e["idx"])]
    nops = sum(len(p) for p in case["threads"])
    stats = {"ops": nops, "ok_calls": sum(1 for e in events if e["op"][0] == "call" and e["out"][0] != "exc"), "steps": s.total_steps, "switches": len(s.switches), "runs_with_cold_compile": int(len(case.get("warm", [])) < len({o[1] for p in case["threads"] for o in p if o[0] == "call"}))}
    faults = {k: v for k, v in s.stats.items() if k.startswith("F-")}
    faults["F-stall"] = s.stats.get("stalls", 0)
    probes = {"boundary_switches": s.stats["boundary_switches"], "switch_inside_registry_get": s.preempt_where.get("get", 0) + s.preempt_where.get("_get", 0) + s.preempt_where.get("__init__", 0),
              "switch_inside_enter_exit": s.preempt_where.get("enter", 0) + s.preempt_where.get("exit", 0) + s.preempt_where.get("_enter", 0) + s.preempt_where.get("_exit", 0),
              "switch_inside_check_new_imports": s.preempt_where.get("_check_new_imports", 0) + s.preempt_where.get("<genexpr>", 0),
              "switch_inside_cache_wrapper": s.preempt_where.get("func_frozen", 0) + s.preempt_where.get("_freeze_value", 0),
              "switch_inside_api_inner": s.preempt_where.get("inner", 0) + s.preempt_where.get("_construct_graph", 0) + s.preempt_where.get("_to_tracer", 0),
              "switch_inside_dependon": s.preempt_where.get("__enter__", 0) + s.preempt_where.get("__exit__", 0),
              "overlapping_with_blocks": 0, "concurrent_cold_compile_same_call": 0, "stall_other_thread_entered_same_function": s.stats.get("stall_other_thread_entered_same_function", 0),
              "virtual_timeouts_fired": s.stats.get("timeouts_fired", 0),
              "switch_inside_device_or_namespace_stack": s.preempt_where.get("_enter", 0) + s.preempt_where.get("_get_stack", 0) + s.preempt_where.get("get_device", 0) + s.preempt_where.get("get_xp", 0)}
    log = {"seed": case["seed"], "threads": case["threads"], "events": [[e["thread"], e["idx"], e["inv"], e["ret"], e["out"]] for e in sorted(events, key=lambda e: e["inv"])],
           "switches": [[a, b, c] for a, b, c, _ in s.switches], "final": final_real, "aborted": s.aborted}
    res = {"stats": stats, "faults": faults, "probes": probes, "switches": [[a, b, c] for a, b, c, _ in s.switches],
           "log_sha": hashlib.sha256(json.dumps(log, sort_keys=True).encode()).hexdigest(), "events_full": log["events"]}
    # probes over the history
    ev = sorted(events, key=lambda e: e["inv"])
    open_blocks = {}
    for e in ev:
        if e["op"][0] == "enter" and e["out"] == ["ok"]:
            if any(t != e["thread"] and n > 0 for t, n in open_blocks.items()):
                probes["overlapping_with_blocks"] += 1
            open_blocks[e["thread"]] = open_blocks.get(e["thread"], 0) + 1
        elif e["op"][0] == "exit":
            open_blocks[e["thread"]] = max(0, open_blocks.get(e["thread"], 0) - 1)
    cold = [e for e in ev if e["op"][0] == "call" and e["op"][1] not in case.get("warm", [])]
    for a in cold:
        for b in cold:
            if a is not b and a["thread"] < b["thread"] and a["op"][1] == b["op"][1] and a["inv"] < b["ret"] and b["inv"] < a["ret"]:
                probes["concurrent_cold_compile_same_call"] += 1
    sig_sw = hashlib.sha1(json.dumps([[a, w] for a, _, _, w in s.switches if w not in ("start", "end", "boundary", "forced")]).encode()).hexdigest()[:10]
    sig_prog = hashlib.sha1(json.dumps([case["threads"], case.get("warm")]).encode()).hexdigest()[:10]
    res["sigs"] = [sig_prog + sig_sw] if s.stats["F-preempt-hot"] > 0 else []
    if s.aborted == "deadlock":
        res.update(verdict="violation", klass="deadlock", detail=f"no runnable thread: {s.deadlock}; programs {case['threads']}")
        return res
    if s.aborted == "step-cap":
        res.update(verdict="violation", klass="step-cap", detail=f"no termination within {s.step_cap} line events; programs {case['threads']}")
        return res
    if len(events) != nops:
        raise RuntimeError(f"history incomplete: {len(events)} of {nops} operations")
    spec_step, set_modules = make_spec(world)
    try:
        def final_ok(state):
            return observable_state(state[0]) == final_real

        witness, nodes = linearize.find_witness(events, (init, frozenset()), spec_step, final_ok)
        if witness is None:
            # explain: is there an order that explains the outcomes but not the final state?
            w2, _ = linearize.find_witness(events, (init, frozenset()), spec_step, lambda st: True)
            hist = [[e["thread"], e["op"], e["out"]] for e in ev]
            if w2 is None:
                res.update(verdict="violation", klass="not-linearizable", detail=f"no sequential order of the calls explains the observed outcomes: history {hist}, final {final_real}")
            else:
                res.update(verdict="violation", klass="final-state", detail=f"outcomes are explained by order {w2} but the final global backend state {final_real} is not the state that order reaches: history {hist}")
        else:
            res["verdict"] = "ok"
            res["witness"] = witness
            res["stats"]["linearize_nodes"] = nodes
    finally:
        set_modules(frozenset())
    return res


def shrink_case(case, klass, cfg):
    """Drop operations, threads, warm entries and finally context switches while the same violation
    class persists.  Candidates that change the programs are executed under the generating PRNG
    policy (the recorded schedule has no meaning for a different program); the result is re-recorded."""
    def run(c):
        r = exec_case(c, cfg)
        return r

    def fails(c):
        r = run(c)
        return r["verdict"] == "violation" and r.get("klass") == klass

    best = case
    gen_pol = case.get("generated_policy")
    if gen_pol:
        # 1. shrink programs under the seeded policy
        cur = dict(case)
        cur["policy"] = gen_pol
        if fails(cur):
            flat = [(t, i) for t, p in enumerate(cur["threads"]) for i in range(len(p))]

            def build(keep):
                keep = set(keep)
                d = dict(cur)
                d["threads"] = [[op for i, op in enumerate(p) if (t, i) in keep] for t, p in enumerate(cur["threads"])]
                return d

            keep = shrink.ddmin(flat, lambda sub: fails(build(sub)), budget=120)
            cur = build(keep)
            cur["warm"] = shrink.ddmin(cur.get("warm", []), lambda sub: fails(dict(cur, warm=list(sub))), budget=30) if cur.get("warm") else []
            r = run(cur)
            if r["verdict"] == "violation" and r.get("klass") == klass:
                best = dict(cur)
                best["policy"] = {"kind": "replay", "switches": r["switches"]}
                best["generated_policy"] = gen_pol
    # 2. drop context switches of the recorded schedule one by one
    if best["policy"]["kind"] == "replay" and fails(best):
        sw = best["policy"]["switches"]
        sw2 = shrink.ddmin(sw, lambda sub: fails(dict(best, policy={"kind": "replay", "switches": list(sub)})), budget=200)
        cand = dict(best, policy={"kind": "replay", "switches": list(sw2)})
        r = run(cand)
        if r["verdict"] == "violation" and r.get("klass") == klass:
            cand["policy"] = {"kind": "replay", "switches": r["switches"]}  # normalised: what actually happened
            if fails(cand):
                best = cand
    return best


# ------------------------------------------------------------------------------------------------
# driver side
# ------------------------------------------------------------------------------------------------
def plan(tier):
    n = 5600 if tier == "quick" else 120000
    return {"groups": [{"env": {"hashseed": 0}, "indices": [i for i in range(n) if i % 4 != 3]}, {"env": {"hashseed": 0, "cache_size": 2}, "indices": [i for i in range(n) if i % 4 == 3]}], "n_workers": 16, "chunk": 20 if tier == "quick" else 50,
            "wall_per_chunk": 900.0, "vacuity": ("ok_calls", 0.3), "cfg": {"wall_per_run": 120, "opcode_p": 0.0}, "recycle_after": 2000}


def describe(results, agg):
    return {
        "rule": "a run = 2-3 real threads x 1-6 operations (einx calls incl. first-time compilation, calls of adapters shared by the threads, solve_axes, with-blocks, lookups by name/tensor, "
                "fake-module imports, register/register_on_import of synthetic backends whose factories may themselves call einx, thread-local device/namespace stack wrappers) under a seeded "
                "baton scheduler (random p in {0.3..0.003} x5 inside registry/cache/tracing files, or PCT-style forced points; every 4th run with EINX_CACHE_SIZE=2); locks, events and conditions "
                "created by einx are simulated (deadlock detection, virtual-time timeouts). Each history is checked for a witness sequential order against BackendRegistryState. "
                "distinct_nontrivial = distinct (programs+warm set, sequence of (thread, file:line) at context switches) pairs with at least one switch inside frontend/backend.py, "
                "tracer/graph.py, util/lru_cache.py, frontend/api.py or the device/namespace stack files",
        "logical_steps": agg["stats"].get("steps", 0),
        "context_switches": agg["stats"].get("switches", 0),
        "preemption_set": "every file under einx/ except util/solver.py, line granularity (the property's own quantifier)",
    }


ASSUMPTIONS = [
    "switches inside sympy, numpy, C code (functools.cache internals) and util/solver.py are not explored (and are outside the property's quantifier)",
    "the single-threaded outcome table (menu call x numpy backend) is the reference for CALL outcomes; BackendRegistryState stepped sequentially is the reference for the registry",
    "overlapping with-blocks of different threads may fail in the sequential specification too (process-global stack by design); such outcomes have a witness and are not flagged",
    "torch device stack / array-api namespace stack wrappers are exercised with a stub inner operation (no torch / array_api_compat installed)",
]


def main(tier):
    from sim import campaign

    return campaign.run(MODULE, ID, tier, plan(tier), describe, ASSUMPTIONS)


def replay(path):
    from sim import campaign

    return campaign.replay(MODULE, ID, path, {})
