"""C11 - backend selection follows the documented precedence and is stable (DESIGN §3.C11).

System under simulation: fresh BackendRegistry instances (real class) populated with the three
real numpy backends and 1-4 synthetic frameworks (module, tensor class, 1-3 Backend objects with
priorities, eager or register_on_import, healthy or failing factory).  A seeded history of
module imports, lookups, uses and with-blocks is run against it; the oracle is a small executable
model of the documented precedence.  Faults: failing factories, late imports (after memo entries
were filled), permuted registration order.  A second kind of run drives the *global* registry
end-to-end through einx.sum/min/dot and identifies the backend that ran from the generated code.
"""
import hashlib
import json
import sys
import types

from sim import rng, seams, shrink

ID = "C11"
MODULE = "checks.c11_registry"

SCALAR_KINDS = ["int", "float", "bool", "np.float32", "np.int64", "np.bool_"]
PRIOS = [-5, -1, 0, 0, 1, 3]


# ------------------------------------------------------------------------------------------------
# generation (pure function of the seed)
# ------------------------------------------------------------------------------------------------
def gen_case(seed, cfg, index=0):
    r = rng.stream(seed, "c11")
    kind = "e2e" if index % 8 == 7 else ("M" if index % 3 == 2 else "H")
    if kind == "e2e":
        return gen_e2e(seed, r)
    tag = rng.tag(seed)
    nfw = r.randint(1, 4)
    fws = []
    regs = []
    for k in range(nfw):
        nb = r.randint(1, 3)
        homog_lazy = r.random() < 0.7
        bks = []
        for j in range(nb):
            lazy = homog_lazy if kind == "H" else (r.random() < 0.6)
            healthy = r.random() < 0.75
            bks.append({"name": f"fw{k}" if j == 0 else f"fw{k}.x{j}", "prio": r.choice(PRIOS), "lazy": lazy, "healthy": healthy,
                        "err": r.choice(["ImportError", "RuntimeError"])})
            regs.append(["register", k, j])
        fws.append({"mod": f"fw_{tag}_{k}", "backends": bks})
    for n in ("numpy", "numpy.numpylike", "numpy.einsum"):
        regs.append(["numpy", n])
    # one framework may be registered late, in the middle of the history (a third-party package imported after einx was used);
    # nothing refers to its tensor type or names before that, so no stale memo can be involved
    late = r.randrange(nfw) if r.random() < 0.3 else None
    late_regs = [s for s in regs if s[0] == "register" and s[1] == late]
    regs = [s for s in regs if not (s[0] == "register" and s[1] == late)]
    r.shuffle(regs)
    setup = []
    for s in regs:  # some modules are imported before (H) / before or in between (M) the registrations
        if r.random() < 0.12:
            setup.append(["import", r.randrange(nfw)])
        setup.append(s)
    if kind == "H":  # an import between two registrations of one framework leaves it half materialised (= M)
        setup = [s for s in setup if s[0] == "import"] + [s for s in setup if s[0] != "import"]
    ops = []
    nops = r.randint(5, 60)
    imported = {s[1] for s in setup if s[0] == "import"}
    depth = 0
    all_names = [b["name"] for f in fws for b in f["backends"]] + ["numpy", "numpy.numpylike", "numpy.einsum"]
    early_names = [b["name"] for k2, f in enumerate(fws) if k2 != late for b in f["backends"]] + ["numpy", "numpy.numpylike", "numpy.einsum"]
    late_at = r.randrange(nops) if late is not None else -1
    registered_late = late is None
    for opn in range(nops):
        if opn == late_at:
            ops.extend(late_regs)
            registered_late = True
        names = all_names if registered_late else early_names
        usable = sorted(k2 for k2 in imported if registered_late or k2 != late)
        c = r.random()
        if c < 0.14:
            k = r.randrange(nfw)
            imported.add(k)
            ops.append(["import", k])
        elif c < 0.22:
            ops.append(["enter", r.choice(names)])
            depth += 1
        elif c < 0.30:
            if depth:
                ops.append(["exit"])
                depth -= 1
        else:
            tensors = []
            for _ in range(r.randint(1, 4)):
                t = r.random()
                if t < 0.3:
                    tensors.append("nd")
                elif t < 0.5:
                    tensors.append("s:" + r.choice(SCALAR_KINDS))
                elif usable:
                    tensors.append(f"T:{r.choice(usable)}")
                else:
                    tensors.append("nd")
            a = r.random()
            if a < 0.55:
                arg = None
            elif a < 0.8:
                arg = {"name": r.choice(names + ["nope"])}
            else:
                arg = {"obj": r.choice(names)}
            ops.append(["lookup", arg, tensors])
    return {"seed": seed, "kind": kind, "frameworks": fws, "setup": setup, "ops": ops, "perm_seed": r.randrange(1 << 30), "late": late}


def gen_e2e(seed, r):
    ops = []
    depth = 0
    names = ["numpy", "numpy.numpylike", "numpy.einsum"]
    for _ in range(r.randint(4, 14)):
        c = r.random()
        if c < 0.25:
            ops.append(["enter", r.choice(names + ["bad"])])  # "bad": a backend whose initialisation failed (InvalidBackend object)
            depth += 1
        elif c < 0.45:
            if depth:
                ops.append(["exit"])
                depth -= 1
        else:
            a = r.random()
            arg = None if a < 0.5 else ({"name": r.choice(names + ["nope"])} if a < 0.8 else {"obj": r.choice(names + ["bad"])})
            ops.append(["which", arg, r.choice(["nd", "scalars", "mixed"])])
    return {"seed": seed, "kind": "e2e", "ops": ops}


# ------------------------------------------------------------------------------------------------
# the executable model of the documented precedence
# ------------------------------------------------------------------------------------------------
class Model:
    """A function of (argument, innermost with-backend, argument types, visible backends) only."""

    def __init__(self):
        self.entries = []  # dict(name, prio, cls, healthy, module)
        self.imported = set()
        self.stack = []

    def visible(self):
        return [e for e in self.entries if e["module"] is None or e["module"] in self.imported]

    def resolve(self, arg, tensors, is_scalar):
        if isinstance(arg, dict) and "obj" in arg:
            return ("obj", arg["obj"]), "object"
        vis = self.visible()
        if isinstance(arg, dict) and "name" in arg:
            for e in vis:
                if e["name"] == arg["name"]:
                    return ("obj", e["name"]), "name-hit"
            return ("exc", "ValueError"), "name-miss"
        if self.stack:
            return ("obj", self.stack[-1]), "with-stack"
        if all(is_scalar(t) for t in tensors):
            return ("obj", "numpy"), "scalars-only"
        cands = [e for e in vis if e["healthy"] and any(isinstance(t, e["cls"]) for t in tensors)]
        branch = "unique"
        if len(cands) > 1:
            m = max(e["prio"] for e in cands)
            cands = [e for e in cands if e["prio"] == m]
            branch = "priority"
        if len(cands) == 1:
            return ("obj", cands[0]["name"]), branch
        return ("exc", "BackendResolutionError"), ("ambiguous" if cands else "no-candidate")


# ------------------------------------------------------------------------------------------------
# execution
# ------------------------------------------------------------------------------------------------
def worker_init(cfg):
    seams.bootstrap(warmup=True)
    return {"einx": seams.WORLD.einx.__file__}


def run_index(i, master, cfg):
    seed = rng.run_seed(ID, i, master)
    case = gen_case(seed, cfg, i)
    case["env"] = cfg.get("env", {})
    res = exec_case(case, cfg)
    res["case_sha"] = hashlib.sha1(json.dumps({k: v for k, v in case.items() if k != "env"}, sort_keys=True).encode()).hexdigest()[:12]
    if res["verdict"] != "ok" or i < 3:
        res["case"] = case
    if i < 3:
        res["sample"] = {"case": case, "log": res.pop("log_full", None)}
    res.pop("log_full", None)
    return res


_REAL = {}


def real_backends():
    """numpy's three backend objects, obtained through the public lookup (a tree under test need not
    have materialised them at import time)."""
    if not _REAL:
        for n in ("numpy", "numpy.numpylike", "numpy.einsum"):
            _REAL[n] = seams.WORLD.einx.backend.get(n)
        seams.reset_world(0)
    return _REAL


def _mk_scalar(kind):
    import numpy as np

    return {"int": 1, "float": 2.0, "bool": True, "np.float32": np.float32(1), "np.int64": np.int64(3), "np.bool_": np.bool_(True)}[kind]


def exec_case(case, cfg):
    if case.get("kind") == "e2e":
        return exec_e2e(case, cfg)
    import numpy as np

    B = seams.WORLD.B
    einx = seams.WORLD.einx
    seams.reset_world(case["seed"])
    REAL = real_backends()
    fws = case["frameworks"]
    # distinct classes that share one __name__, as torch.Tensor / tinygrad.Tensor / tensorflow.Tensor do
    classes = [type("Tensor", (), {"__module__": fws[k]["mod"]}) for k in range(len(fws))]
    is_scalar = lambda t: isinstance(t, float | int | bool | np.floating | np.integer | np.bool_)
    stats = {"ops": 0, "lookups": 0, "skipped_ops": 0, "materialisation_invariant_checked": 0}
    faults = {"F-factory-init": 0, "F-late-import": 0, "F-reg-order-permuted": 0, "F-lookup-interrupted": 0}
    interrupt_armed = [False]  # one-shot: the next factory that runs is interrupted (KeyboardInterrupt) before it does anything
    probes = {"lookup_after_memo_then_import": 0, "priority_tiebreak": 0, "ambiguous": 0, "with_stack_resolution": 0, "invalid_backend_selected": 0,
              "lazy_materialised_by_lookup": 0, "scalars_only": 0, "known_class_seen": 0, "lookup_with_pending_imported_lazy_backend": 0, "late_registration": 0}
    sigs = set()
    log = []
    bad = []  # (klass, detail, known_sig)

    def mk_backend(name, prio, cls):
        return B.Backend(ops={}, name=name, priority=prio, optimizations=[], compiler=None,
                         is_supported_tensor=lambda t, cls=cls: isinstance(t, cls), get_shape=lambda t: ())

    def build(order, counting, eager=False):
        """A registry that has seen `order` (list of setup steps); imports are global.  eager: a lazily
        registered backend is registered at the moment its module is imported (its factory then runs at
        once), so the late-materialisation class of known_findings.jsonl cannot occur on it."""
        reg = B.BackendRegistry()
        model = Model()
        for s in order:
            if s[0] == "import":
                mod = fws[s[1]]["mod"]
                sys.modules[mod] = types.ModuleType(mod)
                model.imported.add(mod)
            elif s[0] == "numpy":
                reg.register(REAL[s[1]])
                model.entries.append(dict(name=s[1], prio=REAL[s[1]].priority, cls=np.ndarray, healthy=True, module=None))
            else:
                register_one(reg, model, s[1], s[2], counting, eager)
            if eager and s[0] == "import":
                materialise(reg, fws[s[1]]["mod"])
        return reg, model

    def register_one(reg, model, k, j, counting, eager):
        if True:
            if True:
                b = fws[k]["backends"][j]
                cls = classes[k]

                def factory(b=b, cls=cls):
                    if interrupt_armed[0]:
                        interrupt_armed[0] = False
                        faults["F-lookup-interrupted"] += 1
                        raise KeyboardInterrupt("lookup interrupted inside the factory of " + b["name"])
                    if not b["healthy"]:
                        if counting:
                            faults["F-factory-init"] += 1
                        raise (ImportError if b["err"] == "ImportError" else RuntimeError)("boom " + b["name"])
                    return mk_backend(b["name"], b["prio"], cls)

                if b["lazy"]:
                    if eager and fws[k]["mod"] not in sys.modules:
                        deferred.setdefault(fws[k]["mod"], []).append((b["name"], factory))  # registered when the module appears
                    else:
                        try:
                            reg.register_on_import(fws[k]["mod"], b["name"], factory)
                        except Exception as e:  # a failing factory must become an InvalidBackend, never surface here
                            bad.append(("factory-failure-leaks", f"register_on_import of {b['name']} (module already imported, factory raises {b['err']}) raised {type(e).__name__}", None))
                    model.entries.append(dict(name=b["name"], prio=b["prio"], cls=cls, healthy=b["healthy"], module=fws[k]["mod"]))
                else:
                    if b["healthy"]:
                        reg.register(factory())
                    else:
                        if counting:
                            faults["F-factory-init"] += 1
                        reg.register(B.InvalidBackend(b["name"], "bad", priority=b["prio"]))
                    model.entries.append(dict(name=b["name"], prio=b["prio"], cls=cls, healthy=b["healthy"], module=None))

    deferred = {}

    def materialise(reg, mod):
        for name, factory in deferred.pop(mod, []):
            try:
                reg.register_on_import(mod, name, factory)  # module is in sys.modules: the factory runs now
            except Exception as e:
                bad.append(("factory-failure-leaks", f"register_on_import of {name} (module already imported) raised {type(e).__name__}", None))

    def mk_tensors(spec):
        out = []
        for t in spec:
            if t == "nd":
                out.append(np.zeros(2))
            elif t.startswith("s:"):
                out.append(_mk_scalar(t[2:]))
            else:
                out.append(classes[int(t[2:])]())
        return out

    def do_lookup(reg, arg, tensors, held):
        if arg is None:
            a = None
        elif "name" in arg:
            a = arg["name"]
        else:
            a = held[arg["obj"]]
        try:
            b = reg.get(a, tensors)
            return ("obj", b.name), b
        except Exception as e:
            return ("exc", type(e).__name__), None

    def pending_imported(reg):
        return sorted(m for m in reg.state.uninitialized_backends if m in sys.modules)

    created_mods = [f["mod"] for f in fws]
    try:
        setup = case["setup"]
        regs_only = [s for s in setup if s[0] != "import"]
        for m in created_mods:
            sys.modules.pop(m, None)
        eager, _ = build(setup, counting=False, eager=True)  # strict oracle: the known late-materialisation class cannot occur here
        for m in created_mods:
            sys.modules.pop(m, None)
        pr = rng.stream(case.get("perm_seed", 0), "perm")
        perm = regs_only[:]
        pr.shuffle(perm)
        it = iter(perm)
        setup_perm = [s if s[0] == "import" else next(it) for s in setup]
        if setup_perm != setup:
            faults["F-reg-order-permuted"] += 1
        twin, _ = build(setup_perm, counting=False)
        for m in created_mods:
            sys.modules.pop(m, None)
        reg, model = build(setup, counting=True)
        regs = {"main": reg, "permuted-order twin": twin, "eager-materialisation twin": eager}
        if any(b[2] is None for b in bad):
            return _finish(case, stats, faults, probes, sigs, log, bad)
        late_seen = {"main": False, "permuted-order twin": False}
        late_pending = [sum(1 for o in case["ops"] if o[0] == "register")]
        held = {}
        ctx = []
        lookups_done = []
        seen_type_tuples = set()
        memo_filled = False
        late_import = False
        cfg_shape = (len(fws), any(b["lazy"] for f in fws for b in f["backends"]), any(not b["healthy"] for f in fws for b in f["backends"]), case["kind"])

        def fatal():
            return any(b[2] is None for b in bad)

        def judge(where, reg_, arg, tspec, tensors, stack_names, opi, strict):
            exp, branch = model.resolve(arg, tensors, is_scalar)
            got, obj = do_lookup(reg_, arg, tensors, held)
            if got != exp:
                msg = f"op {opi} ({where}): lookup(arg={arg}, tensors={tspec}) with with-stack {stack_names} expected {exp} [{branch}] got {got}"
                if not strict and late_seen.get(where) and arg is None:
                    probes["known_class_seen"] += 1
                    bad.append(("lookup-mismatch", msg + "; the twin registry that materialises lazy backends at import time answers as documented", "lazy-unmaterialised"))
                else:
                    bad.append(("lookup-mismatch", msg, None))
            return exp, got, obj, branch

        for opi, op in enumerate(case["ops"]):
            stats["ops"] += 1
            if op[0] == "import":
                mod = fws[op[1]]["mod"]
                if mod not in model.imported and memo_filled:
                    faults["F-late-import"] += 1
                    late_import = True
                sys.modules[mod] = types.ModuleType(mod)
                model.imported.add(mod)
                materialise(eager, mod)
                log.append(["import", op[1]])
            elif op[0] == "register":
                k, j = op[1], op[2]
                if any(e["name"] == fws[k]["backends"][j]["name"] for e in model.entries):
                    stats["skipped_ops"] += 1  # already registered (only after shrinking)
                    continue
                throwaway = Model()
                register_one(twin, throwaway, k, j, False, False)
                register_one(eager, throwaway, k, j, False, True)
                register_one(reg, model, k, j, True, False)
                late_pending[0] -= 1
                probes["late_registration"] += 1
                log.append(["register", k, j])
            elif op[0] == "enter":
                name = op[1]
                exp, _ = model.resolve({"name": name}, [], is_scalar)
                objs = {}
                for w, r_ in regs.items():
                    pend = pending_imported(r_)
                    known_before = name in r_.state.name_to_backend
                    got, objs[w] = do_lookup(r_, {"name": name}, [], held)
                    if got != exp:
                        bad.append(("lookup-mismatch", f"op {opi} ({w}): by-name lookup {name!r} for a with-block expected {exp} got {got}", None))
                    if not known_before and pend and got[0] == "obj" and pending_imported(r_):
                        bad.append(("materialisation-skipped", f"op {opi} ({w}): by-name miss of {name!r} did not register the lazily registered backends of imported modules {pending_imported(r_)}", None))
                log.append(["enter", name, exp])
                if fatal():
                    break
                if exp[0] == "obj":
                    for w, r_ in regs.items():
                        B.Use(objs[w], r_).__enter__()
                    model.stack.append(name)
                    ctx.append(objs)
                    held[name] = objs["main"]
            elif op[0] == "exit":
                if not model.stack:
                    stats["skipped_ops"] += 1
                    continue
                name = model.stack.pop()
                objs = ctx.pop()
                for w, r_ in regs.items():
                    B.Use(objs[w], r_).__exit__(None, None, None)
                log.append(["exit", name])
            elif op[0] == "lookup":
                _, arg, tspec = op
                if arg is not None and "obj" in arg and arg["obj"] not in held:
                    stats["skipped_ops"] += 1
                    continue
                registered_fw = {k2 for k2, f2 in enumerate(fws) if any(e["name"] == f2["backends"][0]["name"] or any(e["name"] == b2["name"] for b2 in f2["backends"]) for e in model.entries)}
                if any(t.startswith("T:") and int(t[2:]) not in registered_fw for t in tspec):
                    stats["skipped_ops"] += 1  # the framework of that tensor is not registered yet (only after shrinking)
                    continue
                if any(t.startswith("T:") and fws[int(t[2:])]["mod"] not in model.imported for t in tspec):
                    stats["skipped_ops"] += 1  # a tensor cannot exist before its module (only after shrinking)
                    continue
                tensors = mk_tensors(tspec)
                # fault: the caller is interrupted (Ctrl-C / async abort) while this lookup runs a lazily registered factory, then repeats the
                # lookup. Main registry only; chosen from the op's content so that shrinking other ops away does not move it. An interrupted
                # lookup must leave no trace: the repeat below is judged exactly like a lookup that was never interrupted.
                if pending_imported(reg) and rng.derive(case.get("perm_seed", 0), "interrupt", json.dumps(op, sort_keys=True)) % 100 < 25:
                    interrupt_armed[0] = True
                    try:
                        do_lookup(reg, arg, tensors, held)
                    except KeyboardInterrupt:
                        pass
                    finally:
                        interrupt_armed[0] = False
                stack_names = list(model.stack)
                nb_before = len(reg.state.backends)
                # the documented trigger: a lookup that finds no accepting backend for some argument (or an unknown name) notices new imports
                pre = {}
                for w in ("main", "permuted-order twin"):
                    r_ = regs[w]
                    pend = pending_imported(r_)
                    if pend:
                        late_seen[w] = True
                        probes["lookup_with_pending_imported_lazy_backend"] += 1
                    miss = False
                    if arg is None and not stack_names and (w, tuple(tspec)) not in seen_type_tuples:
                        miss = any(not any(b.is_supported_tensor(t) for b in r_.state.backends) for t in tensors)
                    elif arg is not None and "name" in arg:
                        miss = arg["name"] not in r_.state.name_to_backend
                    pre[w] = (pend, miss)
                exp, got, obj, branch = judge("main", reg, arg, tspec, tensors, stack_names, opi, strict=False)
                stats["lookups"] += 1
                judge("eager-materialisation twin", eager, arg, tspec, tensors, stack_names, opi, strict=True)
                twin_got = None
                if not (arg is not None and "obj" in arg):
                    _, twin_got, _, _ = judge("permuted-order twin", twin, arg, tspec, tensors, stack_names, opi, strict=False)  # order independence
                ok_by = {"main": got[0] == "obj"}
                for w in ("main", "permuted-order twin"):
                    pend, miss = pre[w]
                    if w not in ok_by:
                        ok_by[w] = twin_got is not None and twin_got[0] == "obj"
                    if miss and pend and ok_by[w]:  # a failed lookup discards the state it built, materialisation included
                        stats["materialisation_invariant_checked"] += 1
                        if pending_imported(regs[w]):
                            bad.append(("materialisation-skipped", f"op {opi} ({w}): lookup(arg={arg}, tensors={tspec}) found no accepting backend for an argument (or an unknown name) but did not register "
                                        f"the lazily registered backends of the imported modules {pending_imported(regs[w])}", None))
                    if arg is None and not stack_names:
                        seen_type_tuples.add((w, tuple(tspec)))
                if len(reg.state.backends) > nb_before:
                    probes["lazy_materialised_by_lookup"] += 1
                if arg is None and not stack_names and got[0] == "obj":
                    memo_filled = True
                    if late_import:
                        probes["lookup_after_memo_then_import"] += 1
                if branch == "priority":
                    probes["priority_tiebreak"] += 1
                elif branch == "ambiguous":
                    probes["ambiguous"] += 1
                elif branch == "with-stack":
                    probes["with_stack_resolution"] += 1
                elif branch == "scalars-only":
                    probes["scalars_only"] += 1
                kinds = sorted({t[0] for t in tspec})
                sigs.add(hashlib.sha1(repr((cfg_shape, "none" if arg is None else list(arg)[0], kinds, len(tspec) > 1, branch)).encode()).hexdigest()[:12])
                log.append(["lookup", arg, tspec, exp, got])
                if got == exp and obj is not None:
                    # identity: the same lookup again returns the same object
                    got_b, obj_b = do_lookup(reg, arg, tensors, held)
                    if obj_b is not obj:
                        bad.append(("identity", f"op {opi}: repeated lookup(arg={arg}, tensors={tspec}) returned a different object ({got_b})", None))
                    held.setdefault(obj.name, obj)
                    # a failing backend raises only when used; healthy ones never
                    e = [e for e in model.entries if e["name"] == obj.name]
                    healthy = e[0]["healthy"] if e else True
                    try:
                        obj.raise_on_import_failure()
                        ok1 = True
                    except einx.errors.ImportBackendError:
                        ok1 = False
                    try:
                        obj.ops
                        ok2 = True
                    except einx.errors.ImportBackendError:
                        ok2 = False
                    if not healthy:
                        probes["invalid_backend_selected"] += 1
                    if ok1 != healthy or ok2 != healthy:
                        bad.append(("health", f"op {opi}: backend {obj.name} healthy={healthy} but use raised={not ok1}/{not ok2}", None))
                lookups_done.append((arg, tspec, stack_names, set(model.imported), late_pending[0]))
            # invariant: with-stack equals the model's (in every registry)
            for w, r_ in regs.items():
                st = [b.name for b in r_.state.use_stack]
                if st != model.stack:
                    bad.append(("use-stack", f"op {opi} ({w}): use_stack {st} != model {model.stack}", None))
            if fatal():
                break
        # history independence: every lookup again at the end and on a registry that saw only the
        # registrations and the final imports (only lookups made when all final imports were present,
        # and outside with-blocks, are comparable)
        if not fatal():
            while model.stack:
                model.stack.pop()
                objs = ctx.pop()
                for w, r_ in regs.items():
                    B.Use(objs[w], r_).__exit__(None, None, None)
            done_regs = [o for o in case["ops"] if o[0] == "register" and any(e["name"] == fws[o[1]]["backends"][o[2]]["name"] for e in model.entries)]
            fresh, _ = build(regs_only + done_regs, counting=False)  # all modules already in sys.modules: registrations materialise at once
            for n, (arg, tspec, stack_names, imp, pending_regs) in enumerate(lookups_done):
                if stack_names or imp != model.imported or pending_regs != late_pending[0] or (arg is not None and "obj" in arg):
                    continue
                tensors = mk_tensors(tspec)
                judge("main", reg, arg, tspec, tensors, [], f"L{n} (repeated at the end of the history)", strict=False)
                judge("eager-materialisation twin", eager, arg, tspec, tensors, [], f"L{n} (repeated at the end of the history)", strict=True)
                judge("registry without earlier lookups", fresh, arg, tspec, tensors, [], f"L{n}", strict=True)
                if fatal():
                    break
    finally:
        for m in created_mods:
            sys.modules.pop(m, None)
    return _finish(case, stats, faults, probes, sigs, log, bad)


def _finish(case, stats, faults, probes, sigs, log, bad):
    res = {"stats": stats, "faults": faults, "probes": probes, "sigs": sorted(sigs),
           "log_sha": hashlib.sha256(json.dumps(log, sort_keys=True, default=str).encode()).hexdigest(), "log_full": log[:40]}
    real = [b for b in bad if b[2] is None]
    if real:
        res.update(verdict="violation", klass=real[0][0], detail=real[0][1])
    elif bad:
        res.update(verdict="known", klass=bad[0][0], detail=bad[0][1], known_sig=bad[0][2])
    else:
        res["verdict"] = "ok"
    return res


# ---- end-to-end slice on the global registry ------------------------------------------------------
def _fingerprint(einx, np, arg, tensors_kind, tag):
    """Which backend ran?  sum uses einsum only under numpy.einsum, dot uses einsum under numpy and
    numpy.einsum, min is unsupported under numpy.einsum -> the triple identifies the backend."""
    x = np.arange(6.0).reshape(2, 3)
    kw = {} if arg is None else {"backend": arg}
    a, b = f"a{tag}", f"b{tag}"
    if tensors_kind == "scalars":
        try:
            einx.min("", 1.0, graph=True, **kw)
            mn = True
        except einx.errors.OperationNotSupportedError:
            mn = False
        except Exception as e:
            return ("exc", type(e).__name__)
        try:
            c2 = einx.sum("", 1.0, graph=True, **kw)
        except Exception as e:
            return ("exc", type(e).__name__)
        c3 = einx.dot(",", 1.0, 2.0, graph=True, **kw)
        return ("fp", "einsum" in c2, "einsum" in c3, mn)
    second = 2.0 if tensors_kind == "mixed" else x[0]
    try:
        c1 = einx.sum(f"{a} [{b}]", x, graph=True, **kw)
    except Exception as e:
        return ("exc", type(e).__name__)
    c2 = einx.dot(f"{a} {b}, {b} -> {a}" if tensors_kind != "mixed" else f"{a} {b}, -> {a} {b}", x, second, graph=True, **kw)
    try:
        einx.min(f"{a} [{b}]", x, graph=True, **kw)
        mn = True
    except einx.errors.OperationNotSupportedError:
        mn = False
    return ("fp", "einsum" in c1, "einsum" in c2, mn)


FP = {"numpy": ("fp", False, True, True), "numpy.einsum": ("fp", True, True, False), "numpy.numpylike": ("fp", False, False, True),
      "bad": ("exc", "ImportBackendError")}  # a failed backend raises when (and only when) it is the one selected


def exec_e2e(case, cfg):
    import numpy as np

    einx = seams.WORLD.einx
    seams.reset_world(case["seed"])
    tag = rng.tag(case["seed"])
    stack = []
    stats = {"ops": 0, "e2e_calls": 0, "skipped_ops": 0}
    probes = {"e2e_with_stack": 0, "e2e_scalars_only": 0, "e2e_by_object": 0}
    sigs = set()
    log = []
    bad = []
    objs = {n: einx.backend.get(n) for n in FP if n != "bad"}
    objs["bad"] = seams.WORLD.B.InvalidBackend("bad", "initialisation failed (synthetic)")
    seams.reset_world(case["seed"])
    cms = []
    try:
        for opi, op in enumerate(case["ops"]):
            stats["ops"] += 1
            if op[0] == "enter":
                objs[op[1]].__enter__()
                stack.append(op[1])
                log.append(op)
            elif op[0] == "exit":
                if not stack:
                    stats["skipped_ops"] += 1
                    continue
                objs[stack.pop()].__exit__(None, None, None)
                log.append(op)
            else:
                _, arg, tk = op
                if arg is None:
                    a = None
                    exp = FP[stack[-1]] if stack else FP["numpy"]
                    if stack:
                        probes["e2e_with_stack"] += 1
                    elif tk == "scalars":
                        probes["e2e_scalars_only"] += 1
                elif "name" in arg:
                    a = arg["name"]
                    exp = FP.get(a, ("exc", "ValueError"))
                else:
                    a = objs[arg["obj"]]
                    exp = FP[arg["obj"]]
                    probes["e2e_by_object"] += 1
                got = _fingerprint(einx, np, a, tk, tag)
                stats["e2e_calls"] += 1
                sigs.add(hashlib.sha1(repr(("e2e", "none" if arg is None else list(arg)[0], tk, len(stack) > 0, exp)).encode()).hexdigest()[:12])
                log.append([op, exp, got])
                if tuple(got) != tuple(exp):
                    bad.append(("e2e-backend", f"op {opi}: call with backend={arg} tensors={tk} inside with-stack {stack}: expected the behaviour of {exp}, observed {got}", None))
                    break
            st = [b.name for b in seams.WORLD.registry.state.use_stack]
            if st != stack:
                bad.append(("use-stack", f"op {opi}: use_stack {st} != model {stack}", None))
                break
    finally:
        seams.reset_world(case["seed"])
    return _finish(case, stats, {}, probes, sigs, log, bad)


# ------------------------------------------------------------------------------------------------
# shrinking
# ------------------------------------------------------------------------------------------------
def shrink_case(case, klass, cfg):
    def fails(c):
        r = exec_case(c, cfg)
        return r["verdict"] == cfg.get("want_verdict", "violation") and r.get("klass") == klass

    def make(c, field, sub):
        d = dict(c)
        d[field] = list(sub)
        return d

    if not fails(case):
        return case
    case = shrink.shrink_fields(case, ["ops"], make, fails, budget=400)
    if case.get("kind") != "e2e":
        # drop whole backends / numpy registrations / setup imports
        case = shrink.shrink_fields(case, ["setup"], make, fails, budget=200)
    return case


# ------------------------------------------------------------------------------------------------
# driver side
# ------------------------------------------------------------------------------------------------
def plan(tier):
    n = 24000 if tier == "quick" else 600000
    return {"groups": [{"env": {"hashseed": 0}, "indices": list(range(n))}], "n_workers": 16, "chunk": 100 if tier == "quick" else 500,
            "wall_per_chunk": 600.0, "vacuity": ("lookups", 1.0), "cfg": {"wall_per_run": 60}}


def describe(results, agg):
    return {
        "rule": "a run = one seeded configuration (1-4 synthetic frameworks x 1-3 backends, eager/lazy, healthy/failing, priorities, registration order "
                "with interleaved imports) + a history of 5-60 imports/lookups/uses/with-blocks on a fresh real BackendRegistry, its permuted-order twin and "
                "a lookup-free registry; every 8th run drives the global registry end-to-end through einx.sum/dot/min. distinct_nontrivial = distinct "
                "(configuration shape, argument kind, tensor-type mix, model resolution branch) tuples that were judged against the model",
        "logical_steps": agg["stats"].get("ops", 0),
        "lookups_judged": agg["stats"].get("lookups", 0),
        "sub_batches": "H (homogeneous eager/lazy per framework) 7/12, M (mixed; reaches the known lazy-unmaterialised class) 7/24, e2e (global registry) 1/8 of the run indices",
    }


ASSUMPTIONS = [
    "foreign frameworks are synthetic Backend objects around the real registry code; only numpy's three backends are real",
    "as the property's quantifier states: frameworks accept disjoint tensor types, registrations precede lookups, a tensor of a framework is only passed after its module was imported",
    "the precedence model in checks/c11_registry.py:Model is the trusted reading of docs/source/gettingstarted/backends.rst",
]


def where_is_einx(cfg=None):
    return seams.WORLD.einx.__file__


def main(tier):
    from sim import campaign

    return campaign.run(MODULE, ID, tier, plan(tier), describe, ASSUMPTIONS)


def replay(path):
    from sim import campaign

    return campaign.replay(MODULE, ID, path, {})
