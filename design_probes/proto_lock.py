import sys, threading, random, os, hashlib, time, _thread
import numpy, sympy, frozendict  # pre-import deps so only einx modules see patched locks

SCHED = [None]
class SimLock:
    _reentrant = False
    def __init__(self):
        self._real = _thread.allocate_lock()
        self._owner = None; self._count = 0
    def acquire(self, blocking=True, timeout=-1):
        me = threading.get_ident()
        s = SCHED[0]
        if self._reentrant and self._owner == me:
            self._count += 1; return True
        if s is not None and s.is_worker():
            while not self._real.acquire(False):
                if not blocking: return False
                s.block_on(self)          # yields baton; returns when scheduled again
            self._owner = me; self._count = 1
            return True
        ok = self._real.acquire(blocking, timeout)
        if ok: self._owner = me; self._count = 1
        return ok
    def release(self):
        if self._reentrant:
            self._count -= 1
            if self._count > 0: return
        self._owner = None
        self._real.release()
        s = SCHED[0]
        if s is not None: s.lock_released(self)
    __enter__ = acquire
    def __exit__(self, *a): self.release()
    def locked(self): return self._real.locked()
class SimRLock(SimLock):
    _reentrant = True

_orig = (threading.Lock, threading.RLock)
threading.Lock, threading.RLock = SimLock, SimRLock
import einx
threading.Lock, threading.RLock = _orig
from einx._src.frontend.backend import registry, BackendRegistry
print('use_lock type', type(registry.use_lock).__name__)

# emulate the fix: hold lock in get
def get(self, backend=None, tensors=None):
    with self.use_lock:
        self.state, backend = self.state.get(backend, tensors)
        return backend
if len(sys.argv) > 3: BackendRegistry.get = get

import numpy as np
FILES = ("frontend/backend.py","frontend/api.py","util/lru_cache.py","tracer/graph.py", "proto_lock.py")
class Deadlock(Exception): pass
class Sched:
    def __init__(self, seed, pswitch):
        self.rng = random.Random(seed); self.cv = threading.Condition(_thread.allocate_lock())
        self.turn = None; self.alive = set(); self.blocked = {}; self.pswitch = pswitch
        self.steps = 0; self.switches = 0; self.log = []; self.ident = {}; self.deadlock=False
    def is_worker(self): return threading.get_ident() in self.ident
    def trace(self, frame, event, arg):
        if frame.f_code.co_name == 'get' and frame.f_code.co_filename.endswith('proto_lock.py'): return self.local
        if not frame.f_code.co_filename.endswith(FILES[:4]): return None
        return self.local
    def local(self, frame, event, arg):
        if event == 'line':
            self.steps += 1
            if self.rng.random() < self.pswitch: self.yield_()
        return self.local
    def runnable(self, exclude=None):
        return sorted(n for n in self.alive if n not in self.blocked and n != exclude)
    def yield_(self, must=False):
        me = self.ident[threading.get_ident()]
        with self.cv:
            cands = self.runnable(exclude=me)
            if not must: cands = cands + [me]
            if not cands:
                self.deadlock = True; self.log.append(('DEADLOCK', sorted(self.blocked.items())))
                os._exit(3)
            nxt = self.rng.choice(cands)
            if nxt == me: return
            self.switches += 1; self.turn = nxt; self.cv.notify_all()
            while self.turn != me: self.cv.wait()
    def block_on(self, lock):
        me = self.ident[threading.get_ident()]
        self.blocked[me] = id(lock)
        self.yield_(must=True)
    def lock_released(self, lock):
        for n, l in list(self.blocked.items()):
            if l == id(lock): del self.blocked[n]
    def run(self, programs):
        names = [f"T{i}" for i in range(len(programs))]; self.alive = set(names); threads = []
        def body(name, prog):
            self.ident[threading.get_ident()] = name
            with self.cv:
                while self.turn != name: self.cv.wait()
            sys.settrace(self.trace)
            try:
                for op in prog:
                    try: self.log.append((name, 'ok', op()))
                    except BaseException as e: self.log.append((name, type(e).__name__, str(e)[:60]))
            finally:
                sys.settrace(None)
                with self.cv:
                    self.alive.discard(name)
                    r = self.runnable()
                    if r: self.turn = self.rng.choice(r)
                    self.cv.notify_all()
        for n, p in zip(names, programs):
            t = threading.Thread(target=body, args=(n, p), name=n); threads.append(t); t.start()
        time.sleep(0.01)
        with self.cv: self.turn = self.rng.choice(names); self.cv.notify_all()
        for t in threads: t.join()

x = np.arange(6.).reshape(2,3)
ein = einx.backend.get("numpy.einsum")
einx.sum("a [b]", x); einx.add("a b, b", x, x[0])
with ein: einx.sum("a [b]", x, graph=True)
def prog_with():
    return [lambda: (ein.__enter__(), 'enter')[1],
            lambda: hashlib.md5(einx.sum("a [b]", x, graph=True).encode()).hexdigest()[:6],
            lambda: (ein.__exit__(None,None,None), 'exit')[1]]
def prog_calls():
    return [lambda: einx.sum("a [b]", x).shape, lambda: einx.add("a b, b", x, x[0]).shape]
seed = int(sys.argv[1]); p = float(sys.argv[2])
s = Sched(seed, p); SCHED[0] = s
s.run([prog_with(), prog_calls()])
SCHED[0] = None
print(seed, 'steps', s.steps, 'switches', s.switches, 'stack', [b.name for b in registry.state.use_stack], s.log)
