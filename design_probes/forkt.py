import os, time, sys
os.environ["OPENBLAS_NUM_THREADS"]="1"
import numpy, sympy, einx
import numpy as np
x=np.arange(6.).reshape(2,3)
mode=sys.argv[1]
t=time.time()
for i in range(30):
    pid=os.fork()
    if pid==0:
        if mode=='call': einx.sum('a [b]'+' '*i, x)
        os._exit(0)
    os.waitpid(pid,0)
print(mode,'per fork ms', (time.time()-t)/30*1000)
