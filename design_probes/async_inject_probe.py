import sys, os, einx, numpy as np
import einx._src.tracer.graph as G
from einx._src.frontend.backend import registry
x=np.arange(6.).reshape(2,3)
EINX_DIR=os.path.dirname(einx.__file__)
class Boom(Exception): pass
def run_with_injection(f, k):
    cnt=[0]; where=[None]
    def gt(frame, ev, arg):
        if frame.f_code.co_filename.startswith(EINX_DIR): return lt
    def lt(frame, ev, arg):
        if ev=='line':
            cnt[0]+=1
            if cnt[0]==k:
                where[0]=(os.path.relpath(frame.f_code.co_filename,EINX_DIR), frame.f_lineno, frame.f_code.co_name)
                raise Boom()
        return lt
    sys.settrace(gt)
    try:
        try: r=f(); out=('ok',)
        except Boom: out=('boom',)
        except BaseException as e: out=(type(e).__name__,str(e)[:50])
    finally: sys.settrace(None)
    return out, where[0], cnt[0]
# count steps
out,_,n=run_with_injection(lambda: einx.sum('a [b] -> a', x), 10**9)
print('total steps', n)
import random
rng=random.Random(1)
leaks=0
for i in range(60):
    k=rng.randrange(1,n)
    desc='a [b] -> a'+' '*(i+1)   # new cache key each time
    out,where,_=run_with_injection(lambda: einx.sum(desc, x), k)
    st=getattr(G._dependon,'stack',[])
    us=registry.state.use_stack
    # subsequent call must work
    try: ok=np.allclose(einx.sum('a [b] -> a'+' '*(100+i), x), x.sum(1))
    except Exception as e: ok=type(e).__name__+':'+str(e)[:60]
    if len(st) or len(us) or ok is not True:
        leaks+=1; print(k,out,where,'dep',len(st),'use',len(us),'next',ok)
        G._dependon.stack=[]
print('leaks',leaks)
