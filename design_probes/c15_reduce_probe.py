import sys, random, itertools, numpy as np, warnings
warnings.simplefilter("ignore")
import einx
NAMES=list("abcdefgh")
def run(seed):
    rng=random.Random(seed)
    k=rng.randint(1,4); names=rng.sample(NAMES,k); sizes=[rng.choice([1,2,2,3,4]) for _ in names]
    ax=list(zip(names,sizes))
    br=set(n for n in names if rng.random()<0.5) or {names[0]}
    # grouping
    groups=[]; i=0
    while i<k:
        if rng.random()<0.3 and i+1<k: groups.append(ax[i:i+2]); i+=2
        else: groups.append([ax[i]]); i+=1
    def tok(a): return f"[{a[0]}]" if a[0] in br else a[0]
    din=" ".join(tok(g[0]) if len(g)==1 else "("+" ".join(tok(a) for a in g)+")" for g in groups)
    keep=[a for a in ax if a[0] not in br]; out=keep[:]; rng.shuffle(out)
    explicit=rng.random()<0.6
    d=din+(" -> "+" ".join(n for n,_ in out) if explicit else "")
    if not explicit: out=keep
    kw={}
    for g in groups:
        if len(g)>1: kw[g[0][0]]=g[0][1]
    full=tuple(s for _,s in ax); n=int(np.prod(full))
    perm=list(range(1,n+1)); rng.shuffle(perm)
    xfull=np.array(perm,dtype=np.int64).reshape(full)
    x=xfull.reshape(tuple(int(np.prod([s for _,s in g])) for g in groups))
    scale=rng.choice([1,2,3])
    log=[]
    def f(t, axis, *, scale=1):
        log.append((t.shape, axis, scale, type(axis).__name__))
        return np.asarray(np.max(t, axis=axis)*scale)
    op=einx.numpy.adapt_numpylike_reduce(f)
    # reference by loops
    keepidx=[i for i,(nm,_) in enumerate(ax) if nm not in br]
    exp=np.zeros(tuple(ax[i][1] for i in keepidx),dtype=np.int64)
    for idx in itertools.product(*[range(ax[i][1]) for i in keepidx]):
        sl=[slice(None)]*k
        for i,v in zip(keepidx,idx): sl[i]=v
        sub=xfull[tuple(sl)]
        exp[idx]=f(sub, tuple(range(sub.ndim)), scale=scale)
    log.clear()
    # transpose to out order
    order=[ [a[0] for a in keep].index(nm) for nm,_ in out]
    exp=exp.transpose(order) if order else exp
    if not explicit:
        shp=[]
        for g in groups:
            kept=[s_ for n_,s_ in g if n_ not in br]
            if len(g)>1: shp.append(int(np.prod(kept)) if kept else 1)
            elif kept: shp.append(kept[0])
        exp=exp.reshape(tuple(shp))
    try:
        got=op(d, x, scale=scale, **kw)
    except Exception as e:
        return ('EXC', d, type(e).__name__, str(e)[:100])
    ok = got.shape==exp.shape and np.array_equal(got,exp)
    return ('OK' if ok else 'MISMATCH', d, full, log)
bad=0
import collections
shapes=collections.Counter()
for s in range(int(sys.argv[1])):
    r=run(s)
    if r[0]!='OK': bad+=1; print(s,r)
    elif s<12: print(s,r)
print('bad',bad)
