import sys, random, itertools, numpy as np, warnings
warnings.simplefilter("ignore")
import einx
NAMES=list("abcdefgh")
def run(seed):
    rng=random.Random(seed)
    k=rng.randint(1,4); names=rng.sample(NAMES,k); size={n:rng.choice([1,2,2,3,4]) for n in names}
    nin=rng.choice([2,2,3])
    ins=[]
    for i in range(nin):
        sub=[n for n in names if rng.random()<0.7] if i>0 else names[:]
        rng.shuffle(sub); ins.append(sub)
    out=names[:]; rng.shuffle(out)
    explicit=rng.random()<0.6
    d=", ".join(" ".join(s) for s in ins)+(" -> "+" ".join(out) if explicit else "")
    xs=[]
    for sub in ins:
        shp=tuple(size[n] for n in sub); n=int(np.prod(shp)) if shp else 1
        p=list(range(1,n+1)); rng.shuffle(p); xs.append(np.array(p,dtype=np.int64).reshape(shp))
    alpha=rng.choice([1,2,3]); log=[]
    def f(*ts, alpha=1):
        log.append(tuple(t.shape for t in ts)+(alpha,))
        r=ts[0]
        for t in ts[1:]: r=r*alpha - t
        return np.asarray(r)
    op=einx.numpy.adapt_numpylike_elementwise(f)
    try: got=op(d,*xs,alpha=alpha)
    except Exception as e:
        if not explicit: return ('REJ',d,type(e).__name__)   # implicit output may be ambiguous
        return ('EXC',d,type(e).__name__,str(e)[-200:])
    if not explicit:
        # implicit output: the unique input containing all axis names (excluding 1s)
        out=None
        for sub in ins:
            if set(n for n in names if size[n]!=1) <= set(sub) or set(names)<=set(sub): out=sub; break
        out=ins[0]
    exp=np.zeros(tuple(size[n] for n in out),dtype=np.int64)
    for idx in itertools.product(*[range(size[n]) for n in out]):
        env=dict(zip(out,idx))
        sc=[x[tuple(env[n] for n in sub)] for x,sub in zip(xs,ins)]
        r=sc[0]
        for t in sc[1:]: r=r*alpha - t
        exp[idx]=r
    ok=got.shape==exp.shape and np.array_equal(got,exp)
    ranks={len(sh) for sh in log[0][:-1]}
    return ('OK' if ok and len(ranks)==1 and len(log)==1 else 'MISMATCH', d, [x.shape for x in xs], log)
bad=0; rej=0
for s in range(int(sys.argv[1])):
    r=run(s)
    if r[0]=='REJ': rej+=1
    elif r[0]!='OK': bad+=1; print(s,r)
    elif s<6: print(s,r)
print('bad',bad,'rejected-implicit',rej)
