import os, sys, pickle, random, warnings, hashlib, numpy as np
os.environ.setdefault("OPENBLAS_NUM_THREADS","1")
warnings.simplefilter("ignore")
import einx, gen
np.seterr(all="ignore")
ein=einx.backend.get("numpy.einsum"); npl=einx.backend.get("numpy.numpylike")
def outcome(c):
    op,d,xs,kw,g=c
    try:
        r=getattr(einx,op)(d,*[np.array(x,copy=True) if isinstance(x,np.ndarray) else x for x in xs],**kw,**({'graph':True} if g else {}))
        if isinstance(r,str): return ('code',r)
        rs=r if isinstance(r,tuple) else (r,)
        return ('ok',)+tuple((np.asarray(a).shape,str(np.asarray(a).dtype),np.asarray(a).tobytes()) for a in rs)
    except Exception as e: return ('exc',type(e).__module__+'.'+type(e).__name__)
def pristine(c, stack):
    r,w=os.pipe(); pid=os.fork()
    if pid==0:
        os.close(r)
        for b in stack: b.__enter__()
        os.write(w,pickle.dumps(outcome(c))); os._exit(0)
    os.close(w); data=b''
    while True:
        ch=os.read(r,1<<20)
        if not ch: break
        data+=ch
    os.close(r); os.waitpid(pid,0); return pickle.loads(data)
def alias(rng,c):
    op,d,xs,kw,g=c; kw=dict(kw); xs=list(xs)
    ch=[]
    if kw: ch.append('kw')
    ch.append('space'); ch.append('tensor')
    k=rng.choice(ch)
    if k=='kw':
        n=rng.choice(sorted(kw)); v=kw[n]
        if isinstance(v,int): kw[n]=rng.choice([float(v), np.int64(v), np.float32(v), True if v==1 else float(v), np.array(v), [v][0]])
    elif k=='space': d=d.replace(' ','  ',1)
    else:
        j=rng.randrange(len(xs))
        if isinstance(xs[j],np.ndarray) and xs[j].ndim==0: xs[j]=rng.choice([xs[j].item(), np.float64(xs[j]), float(xs[j])])
        elif isinstance(xs[j],np.ndarray): xs[j]=rng.choice([xs[j].astype(np.float64), xs[j].astype(np.int32), np.asfortranarray(xs[j]), xs[j].tolist() if False else xs[j]])
    return (op,d,xs,kw,g)
def run(seed):
    """runs in the zygote: build history + pristine refs (forks), then fork SUT"""
    rng=random.Random(seed)
    base=[c+(rng.random()<0.2,) for c in gen.gen_corpus(seed,12,pbad=0.25)]
    hist=[]
    for _ in range(30):
        r=rng.random()
        if r<0.45 or not hist: hist.append(('call',rng.choice(base)))
        elif r<0.8:
            prev=[h[1] for h in hist if h[0]=='call']
            if prev: hist.append(('call',alias(rng,rng.choice(prev))))
        elif r<0.9: hist.append(('enter',rng.choice([ein,npl])))
        else: hist.append(('exit',None))
    stack=[]; refs=[]
    for kind,c in hist:
        if kind=='enter': stack.append(c); refs.append(None)
        elif kind=='exit':
            if stack: stack.pop()
            refs.append(None)
        else: refs.append(pristine(c,list(stack)))
    pid=os.fork()
    if pid==0:
        stack=[]; bad=0
        for (kind,c),ref in zip(hist,refs):
            if kind=='enter': c.__enter__(); stack.append(c); continue
            if kind=='exit':
                if stack: stack.pop().__exit__(None,None,None)
                continue
            got=outcome(c)
            if ref!=got:
                bad+=1
                if bad<=2: print(seed,(c[0],c[1],{k:(type(v).__name__,v if not isinstance(v,np.ndarray) else v.tolist()) for k,v in c[3].items()},[type(x).__name__+str(getattr(x,'dtype','')) for x in c[2]],ref[:2] if ref[0]!='ok' else 'ok',got[:2] if got[0]!='ok' else 'ok'),flush=True)
        os._exit(1 if bad else 0)
    _,st=os.waitpid(pid,0); return st!=0
if __name__=='__main__':
    tot=0
    for seed in range(int(sys.argv[1]),int(sys.argv[2])): tot+=run(seed)
    print('histories with mismatch',tot)
