import os, time, sys, warnings
os.environ["OPENBLAS_NUM_THREADS"]="1"
warnings.simplefilter("ignore")
import numpy as np, einx, gen
c=gen.gen_corpus(int(sys.argv[1]),200,pbad=0.0)
t=time.time(); u=os.times()
for op,d,xs,kw in c:
    try: getattr(einx,op)(d,*xs,**kw)
    except Exception: pass
u2=os.times()
print('200 cold calls: wall %.2f user %.2f sys %.2f'%(time.time()-t, u2.user-u.user, u2.system-u.system))
