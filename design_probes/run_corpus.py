import sys, hashlib, warnings, numpy as np
warnings.simplefilter("ignore")
import einx, gen
seed=int(sys.argv[1]); n=int(sys.argv[2])
np.seterr(all="ignore")
for i,(op,d,xs,kw) in enumerate(gen.gen_corpus(seed,n)):
    try:
        r=getattr(einx,op)(d,*[x.copy() for x in xs],**kw)
        rs = r if isinstance(r,tuple) else (r,)
        dig=[]
        for a in rs:
            a=np.asarray(a)
            if a.dtype.kind=='f': a=np.round(a,9)+0.0
            dig.append((a.shape,str(a.dtype),hashlib.md5(np.ascontiguousarray(a).tobytes()).hexdigest()[:8]))
        print(i,op,repr(d),'OK',dig)
    except Exception as e:
        print(i,op,repr(d),'EXC',type(e).__module__+'.'+type(e).__name__)
