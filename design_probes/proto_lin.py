"""Linearizability oracle prototype: sequential spec = einx's functional BackendRegistryState."""
import sys, os, hashlib, random
src=open('proto_lock.py').read().split("x = np.arange")[0]
MODE=sys.argv[1]; NRUNS=int(sys.argv[2])
sys.argv=[sys.argv[0],'0','0.05']+(['fixed'] if MODE=='fixed' else [])
exec(src)
import einx._src.frontend.backend as BK
from einx.errors import OperationNotSupportedError
x=np.arange(6.).reshape(2,3)
BACK={n:einx.backend.get(n) for n in ("numpy","numpy.einsum","numpy.numpylike")}
INIT=registry.state
def dig(r): return hashlib.md5(r.encode()).hexdigest()[:6] if isinstance(r,str) else tuple(r.shape)
CALLS={'sumg':lambda **k: einx.sum("a [b]", x, graph=True, **k), 'add':lambda **k: einx.add("a b, b", x, x[0], **k), 'min':lambda **k: einx.min("a [b]", x, **k)}
def outcome(f):
    try: return ('ok',dig(f()))
    except Exception as e: return ('exc',type(e).__name__)
# expected table: call under each backend, single-threaded (also warms caches)
TABLE={(c,b):outcome(lambda c=c,b=b: CALLS[c](backend=BACK[b])) for c in CALLS for b in BACK}
registry.state=INIT
def clone(st):
    n=BK.BackendRegistryState(st); n.uninitialized_backends={k:list(v) for k,v in n.uninitialized_backends.items()}; return n
def spec_step(st, op):
    """returns (new_state, expected outcome)"""
    kind,arg=op
    st=clone(st)
    try:
        if kind=='enter': return st.enter(BACK[arg]), ('ok','enter')
        if kind=='exit':  return st.exit(BACK[arg]), ('ok','exit')
        if kind=='call':
            st2,b=st.get(None,[x]); return st2, TABLE[(arg,b.name)]
    except Exception as e: return st, ('exc',type(e).__name__)
def linearizable(events, final_stack):
    # events: list of dict(thread, idx, op, inv, ret, out)
    n=len(events)
    def rec(done, st):
        if len(done)==n: return [b.name for b in st.use_stack]==final_stack
        for i,e in enumerate(events):
            if i in done: continue
            # per-thread order and real-time order: e may go next only if no undone event returned before e was invoked
            if any(j not in done and events[j]['ret']<e['inv'] for j in range(n) if j!=i): continue
            st2,exp=spec_step(st,e['op'])
            if exp==e['out'] and rec(done|{i}, st2): return True
        return False
    return rec(frozenset(), INIT)
def run(seed):
    registry.state=INIT
    rng=random.Random(seed)
    progs=[]
    for t in range(2):
        p=[]
        for _ in range(rng.randint(1,2)):
            if rng.random()<0.45:
                b=rng.choice(["numpy.einsum","numpy.numpylike"]); p+= [('enter',b),('call',rng.choice(list(CALLS))),('exit',b)]
            else: p.append(('call',rng.choice(list(CALLS))))
        progs.append(p)
    s=Sched(seed, rng.choice([0.2,0.05,0.02])); SCHED[0]=s
    events=[]; clock=[0]
    def mk(t,i,op):
        def f():
            clock[0]+=1; inv=clock[0]
            kind,arg=op
            if kind=='enter': out=outcome(lambda:(BACK[arg].__enter__(),'enter')[1]); out=('ok','enter') if out[0]=='ok' else out
            elif kind=='exit': out=outcome(lambda:(BACK[arg].__exit__(None,None,None),'exit')[1]); out=('ok','exit') if out[0]=='ok' else out
            else: out=outcome(CALLS[arg])
            clock[0]+=1; events.append(dict(thread=t,idx=i,op=op,inv=inv,ret=clock[0],out=out)); return out
        return f
    s.run([[mk(t,i,op) for i,op in enumerate(p)] for t,p in enumerate(progs)])
    SCHED[0]=None
    fin=[b.name for b in registry.state.use_stack]
    ok=linearizable(events, fin)
    return ok, progs, [(e['thread'],e['op'],e['out']) for e in sorted(events,key=lambda e:e['inv'])], fin
bad=0
for seed in range(NRUNS):
    ok,progs,ev,fin=run(seed)
    if not ok:
        bad+=1
        if bad<=3: print('NOT LINEARIZABLE seed',seed,'\n  progs',progs,'\n  events',ev,'\n  final',fin)
print(MODE,'runs',NRUNS,'non-linearizable',bad)
