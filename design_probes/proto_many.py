import sys, types
src=open('proto_lock.py').read().split("x = np.arange")[0]
sys.argv=[sys.argv[0],'0','0.05','fixed']
exec(src)
import einx._src.frontend.backend as BK
# emulate fix 4: snapshot sys.modules
import re, inspect
def _check_new_imports(self, has_checked):
    if has_checked[0]: return False
    has_checked[0]=True
    mods=list(sys.modules)
    if any(m not in self.seen_module_names for m in mods):
        new=[m for m in mods if m not in self.seen_module_names]
        for n in new:
            self.seen_module_names.add(n)
            if n in self.uninitialized_backends:
                for bn,bf in self.uninitialized_backends[n]: self._run_factory(n,bn,bf)
                del self.uninitialized_backends[n]
        return True
    return False
BK.BackendRegistryState._check_new_imports=_check_new_imports
x = np.arange(6.).reshape(2,3)
ein = einx.backend.get("numpy.einsum"); npl=einx.backend.get("numpy.numpylike")
class U: pass
import hashlib, random
def mkprog(rng, tid):
    ops=[]
    for _ in range(rng.randint(1,4)):
        k=rng.random()
        if k<0.25:
            b=rng.choice([ein,npl])
            ops.append(lambda b=b: (b.__enter__(), 'enter '+b.name)[1])
            ops.append(lambda: hashlib.md5(einx.sum("a [b]", x, graph=True).encode()).hexdigest()[:6])
            ops.append(lambda b=b: (b.__exit__(None,None,None), 'exit '+b.name)[1])
        elif k<0.5: 
            d="a b, b"+" "*rng.randint(0,3)
            ops.append(lambda d=d: einx.add(d, x, x[0]).shape)
        elif k<0.65: ops.append(lambda: einx.min("a [b]", x).shape)
        elif k<0.8:
            def lk():
                try: registry.get(None,[U()])
                except einx.errors.BackendResolutionError: return 'BRE'
            ops.append(lk)
        else:
            n=f"fk_{tid}_{rng.randrange(10**6)}"
            ops.append(lambda n=n: (sys.modules.__setitem__(n, types.ModuleType(n)),'imp')[1])
    return ops
ok_exc={'OperationNotSupportedError','AssertionError'}   # AssertionError: non-LIFO exit is sequentially explainable
bad=0
N=int(sys.argv[1]) if len(sys.argv)>1 else 200
import os
for seed in range(300):
    pid=os.fork()
    if pid==0:
        rng=random.Random(seed)
        s=Sched(seed, rng.choice([0.3,0.1,0.03,0.01])); SCHED[0]=s
        s.run([mkprog(rng,0), mkprog(rng,1), mkprog(rng,2)][:rng.randint(2,3)])
        SCHED[0]=None
        exc=[l for l in s.log if l[1] not in ('ok',) and l[1] not in ok_exc]
        if exc: print(seed, exc, flush=True); os._exit(1)
        os._exit(0)
    _,st=os.waitpid(pid,0)
    if st!=0: bad+=1
print('bad',bad)
