import sys, threading, random, os, hashlib, time
import numpy as np
import einx
from einx._src.frontend.backend import registry
import einx._src.frontend.backend as B

EINX_DIR = os.path.dirname(einx.__file__)
FILES = None  # all einx files

class Sched:
    def __init__(self, seed, nthreads, pswitch):
        self.rng = random.Random(seed)
        self.cv = threading.Condition()
        self.turn = None
        self.alive = set()
        self.pswitch = pswitch
        self.steps = 0
        self.switches = 0
        self.log = []
    def trace(self, frame, event, arg):
        fn = frame.f_code.co_filename
        if not fn.startswith(EINX_DIR):
            return None
        return self.local
    def local(self, frame, event, arg):
        if event == 'line':
            self.steps += 1
            if self.rng.random() < self.pswitch:
                self.yield_()
        return self.local
    def yield_(self):
        me = threading.current_thread().name
        with self.cv:
            others = sorted(self.alive - {me})
            if not others: return
            nxt = self.rng.choice(others + [me])
            if nxt == me: return
            self.switches += 1
            self.turn = nxt
            self.cv.notify_all()
            while self.turn != me:
                self.cv.wait()
    def run(self, programs):
        threads = []
        names = [f"T{i}" for i in range(len(programs))]
        self.alive = set(names)
        def body(name, prog):
            with self.cv:
                while self.turn != name:
                    self.cv.wait()
            sys.settrace(self.trace)
            try:
                for op in prog:
                    try:
                        r = op()
                        self.log.append((name, 'ok', r))
                    except BaseException as e:
                        self.log.append((name, type(e).__name__, str(e)[:60]))
            finally:
                sys.settrace(None)
                with self.cv:
                    self.alive.discard(name)
                    if self.alive:
                        self.turn = self.rng.choice(sorted(self.alive))
                    self.cv.notify_all()
        for n, p in zip(names, programs):
            t = threading.Thread(target=body, args=(n, p), name=n); threads.append(t); t.start()
        with self.cv:
            self.turn = self.rng.choice(names); self.cv.notify_all()
        for t in threads: t.join()

x = np.arange(6.).reshape(2,3)
ein = einx.backend.get("numpy.einsum")
def prog_with():
    ops = []
    ops.append(lambda: (ein.__enter__(), 'enter')[1])
    ops.append(lambda: hashlib.md5(einx.sum("a [b]", x, graph=True).encode()).hexdigest()[:6])
    ops.append(lambda: (ein.__exit__(None,None,None), 'exit')[1])
    return ops
def prog_calls():
    return [lambda: einx.sum("a [b]", x).shape, lambda: einx.add("a b, b", x, x[0]).shape]

if __name__ == '__main__':
    seed = int(sys.argv[1]); p = float(sys.argv[2])
    # warm caches so steps are few
    if len(sys.argv) > 3:
        einx.sum("a [b]", x); einx.add("a b, b", x, x[0]); 
        with ein: einx.sum("a [b]", x, graph=True)
    t=time.time()
    s = Sched(seed, 2, p)
    s.run([prog_with(), prog_calls()])
    print(seed, 'steps', s.steps, 'switches', s.switches, 'stack', [b.name for b in registry.state.use_stack], '%.2fs'%(time.time()-t))
    for l in s.log: print('  ', l)
