import sys, types, random, numpy as np
import einx
from einx._src.frontend.backend import registry, BackendRegistry, Backend, InvalidBackend, Use
from einx.errors import BackendResolutionError, ImportBackendError
REAL = list(registry.state.backends)

def mk_backend(name, prio, cls):
    return Backend(ops={}, name=name, priority=prio, optimizations=[], compiler=None,
                   is_supported_tensor=lambda t, cls=cls: isinstance(t, cls), get_shape=lambda t: ())
SCALARS = [1, 2.0, True, np.float32(1), np.int64(3), np.bool_(True)]

class Model:
    """documented precedence as a function of (arg, stack, tensor types, visible backends)"""
    def __init__(self): self.entries=[]; self.imported=set(); self.stack=[]
    def visible(self): return [e for e in self.entries if e['module'] is None or e['module'] in self.imported]
    def resolve(self, arg, tensors):
        if isinstance(arg, dict): return ('obj', arg['name'])        # backend object given (model entry)
        vis = self.visible()
        if isinstance(arg, str):
            for e in vis:
                if e['name']==arg: return ('obj', e['name'])
            return ('exc','ValueError')
        if self.stack: return ('obj', self.stack[-1])
        if all(isinstance(t,(float,int,bool,np.floating,np.integer,np.bool_)) for t in tensors):
            return ('obj','numpy')
        cands=[e for e in vis if e['healthy'] and any(isinstance(t, e['cls']) for t in tensors)]
        if cands:
            m=max(e['prio'] for e in cands); cands=[e for e in cands if e['prio']==m]
        if len(cands)==1: return ('obj', cands[0]['name'])
        return ('exc','BackendResolutionError')

def run(seed, verbose=False):
    rng=random.Random(seed)
    reg=BackendRegistry(); model=Model()
    for b in REAL:
        reg.register(b); model.entries.append(dict(name=b.name, prio=b.priority, cls=np.ndarray, healthy=True, module=None))
    nfw=rng.randint(1,4); fws=[]
    pending=[]
    for k in range(nfw):
        cls=type(f"T{k}",(),{}); mod=f"fw_{seed}_{k}"
        fws.append((mod,cls))
        for j in range(rng.randint(1,3)):
            name=f"fw{k}" if j==0 else f"fw{k}.x{j}"; prio=rng.choice([-5,-1,0,0,1,3]); healthy=rng.random()<0.75
            lazy=rng.random()<0.7
            pending.append((k,mod,cls,name,prio,healthy,lazy))
    rng.shuffle(pending)
    objs={}
    def register(p):
        k,mod,cls,name,prio,healthy,lazy=p
        def factory(name=name,prio=prio,cls=cls,healthy=healthy):
            if not healthy: raise ImportError("boom "+name)
            b=mk_backend(name,prio,cls); objs[name]=b; return b
        if lazy:
            reg.register_on_import(mod,name,factory)
            model.entries.append(dict(name=name,prio=prio,cls=cls,healthy=healthy,module=mod))
        else:
            if healthy: b=factory(); reg.register(b)
            else: b=InvalidBackend(name,"bad",priority=prio); objs[name]=b; reg.register(b)
            model.entries.append(dict(name=name,prio=prio,cls=cls,healthy=healthy,module=None))
    # register a random prefix now, rest later as ops
    npre=len(pending)
    for p in pending[:npre]: register(p)
    later=pending[npre:]
    nops=rng.randint(5,40); hist=[]
    try:
        for i in range(nops):
            kind=rng.choice(["import","lookup","lookup","lookup","lookup","enter","exit","register"])
            if kind=="import":
                mod,cls=rng.choice(fws)
                sys.modules[mod]=types.ModuleType(mod); model.imported.add(mod); hist.append(("import",mod)); continue
            if kind=="register":
                if later: p=later.pop(); register(p); hist.append(("register",p[3],p[6])); 
                continue
            if kind=="enter":
                vis=[e for e in model.visible()]
                if not vis: continue
                e=rng.choice(vis)
                try: b=reg.get(e['name'])
                except Exception as ex: 
                    print("VIOL get-by-name of visible failed", seed, e['name'], type(ex).__name__, hist); return False
                Use(b,reg).__enter__(); model.stack.append(e['name']); hist.append(("enter",e['name'])); continue
            if kind=="exit":
                if not model.stack: continue
                name=model.stack.pop(); b=reg.get(name); Use(b,reg).__exit__(None,None,None); hist.append(("exit",name)); continue
            # lookup
            tensors=[]
            for _ in range(rng.randint(1,4)):
                c=rng.random()
                if c<0.3: tensors.append(np.zeros(2))
                elif c<0.5: tensors.append(rng.choice(SCALARS))
                else:
                    imp=[(m,cl) for m,cl in fws if m in model.imported]
                    if imp: tensors.append(rng.choice(imp)[1]())
                    else: tensors.append(np.zeros(1))
            a=rng.random()
            if a<0.55: arg=None; marg=None
            elif a<0.8:
                names=[e['name'] for e in model.entries]+["nope"]
                arg=rng.choice(names); marg=arg
            else:
                have=[n for n in objs]
                if not have: arg=None; marg=None
                else: n=rng.choice(sorted(have)); arg=objs[n]; marg={'name':n}
            exp=model.resolve(marg,tensors)
            try:
                b=reg.get(arg,tensors); got=('obj',b.name)
                b2=reg.get(arg,tensors)
                if b2 is not b: print("VIOL identity",seed); return False
            except Exception as ex: got=('exc',type(ex).__name__)
            hist.append(("lookup", marg if not isinstance(marg,dict) else 'obj:'+marg['name'], [type(t).__name__ for t in tensors], exp, got))
            if got!=exp:
                # twin registry: same registrations, same imports, force materialisation first
                reg2=BackendRegistry()
                for b in REAL: reg2.register(b)
                objs_backup=dict(objs)
                for p in pending: 
                    k,mod,cls,name,prio,healthy,lazy=p
                    def factory(name=name,prio=prio,cls=cls,healthy=healthy):
                        if not healthy: raise ImportError("boom "+name)
                        return mk_backend(name,prio,cls)
                    if lazy: reg2.register_on_import(mod,name,factory)
                    else: reg2.register(factory() if healthy else InvalidBackend(name,"bad",priority=prio))
                try: reg2.get("__nope__")
                except ValueError: pass
                for bk in model.stack: Use(reg2.get(bk),reg2).__enter__()
                try: got2=('obj',reg2.get(arg if not isinstance(arg,(Backend,InvalidBackend)) else arg.name if False else arg,tensors).name)
                except Exception as ex: got2=('exc',type(ex).__name__)
                if got2==exp:
                    KNOWN[0]+=1; return True
                print("VIOL",seed,hist[-1],'forced',got2); 
                if verbose: 
                    for h in hist: print("   ",h)
                return False
            # health check on use
            if got[0]=='obj':
                e=[e for e in model.entries if e['name']==got[1]][0]
                try: b.raise_on_import_failure(); ok=True
                except ImportBackendError: ok=False
                if ok!=e['healthy']: print("VIOL health",seed,got); return False
        return True
    finally:
        for mod,_ in fws: sys.modules.pop(mod,None)
KNOWN=[0]
bad=0; N=int(sys.argv[1])
for s in range(N):
    if not run(s, verbose=(bad<3)): bad+=1
print("runs",N,"bad",bad,"known-class",KNOWN[0])
