"""Prototype structured generator of einx calls (valid and slightly corrupted)."""
import random, numpy as np

NAMES = list("abcdefgh")
REDUCE = ["sum","mean","var","std","prod","count_nonzero","any","all","max","min","logsumexp"]
ELEM = ["add","subtract","multiply","true_divide","maximum","minimum","less","equal","logical_and","where","logaddexp"]
PRES = ["flip","roll","sort","argsort","softmax","log_softmax"]

def mkdata(rng, shape, kind="int"):
    n = int(np.prod(shape)) if len(shape) else 1
    perm = list(range(1, n + 1)); rng.shuffle(perm)
    a = np.array(perm, dtype=np.int64).reshape(shape)
    if kind == "float": a = a.astype(np.float64) / 4.0
    if kind == "bool": a = (a % 2).astype(bool)
    return a

def axes(rng, k, sizes=(1,2,2,3,3,4,5)):
    names = rng.sample(NAMES, k)
    return [(n, rng.choice(sizes)) for n in names]

def group(rng, ax, p=0.3):
    """randomly parenthesise adjacent axes -> list of groups (each list of axes)"""
    out=[]; i=0
    while i < len(ax):
        if rng.random() < p and i+1 < len(ax):
            j = rng.randint(i+2, min(len(ax), i+3)); out.append(ax[i:j]); i=j
        else: out.append([ax[i]]); i+=1
    return out

def gstr(groups, br=frozenset()):
    def one(a): return f"[{a[0]}]" if a[0] in br else a[0]
    return " ".join(one(g[0]) if len(g)==1 else "(" + " ".join(one(a) for a in g) + ")" for g in groups)

def gshape(groups): return tuple(int(np.prod([s for _,s in g])) for g in groups)

def sizes_kw(rng, groups_list):
    """sizes needed to resolve flattened groups: give all but maybe one per group"""
    kw={}
    for groups in groups_list:
        for g in groups:
            if len(g)>1:
                skip = rng.randrange(len(g))
                for i,(n,s) in enumerate(g):
                    if i!=skip: kw[n]=s
    return kw

def gen_call(rng):
    fam = rng.choice(["id","id","reduce","reduce","elem","elem","dot","get_at","update_at","argfind","pres","idcat","ell"])
    kind = rng.choice(["int","float"])
    if fam == "id":
        ax = axes(rng, rng.randint(1,4)); gi = group(rng, ax)
        out = ax[:]; rng.shuffle(out)
        if rng.random()<0.3: out.append((rng.choice([n for n in NAMES if n not in dict(ax)]), rng.choice([1,2,3])))
        go = group(rng, out)
        kw = sizes_kw(rng, [gi]); kw.update({n:s for n,s in out if n not in dict(ax)})
        return ("id", f"{gstr(gi)} -> {gstr(go)}", [mkdata(rng, gshape(gi), kind)], kw)
    if fam == "idcat":
        ax = axes(rng, rng.randint(1,3)); k = rng.randrange(len(ax))
        n1, n2 = [n for n in NAMES if n not in dict(ax)][:2]; s1, s2 = rng.choice([1,2,3]), rng.choice([1,2])
        a1 = ax[:k]+[(n1,s1)]+ax[k+1:]; a2 = ax[:k]+[(n2,s2)]+ax[k+1:]
        outs = " ".join(n if i!=k else f"({n1} + {n2})" for i,(n,_) in enumerate(ax))
        if rng.random()<0.5:
            return ("id", f"{' '.join(n for n,_ in a1)}, {' '.join(n for n,_ in a2)} -> {outs}", [mkdata(rng, tuple(s for _,s in a1), kind), mkdata(rng, tuple(s for _,s in a2), kind)], {})
        else:
            shp = tuple(s if i!=k else s1+s2 for i,(_,s) in enumerate(ax))
            return ("id", f"{outs} -> {' '.join(n for n,_ in a1)}, {' '.join(n for n,_ in a2)}", [mkdata(rng, shp, kind)], {n1:s1})
    if fam == "ell":
        ax = axes(rng, rng.randint(2,4)); k = rng.randint(1,len(ax)-1)
        tail = ax[k:]; 
        d = f"... {' '.join(n for n,_ in tail)} -> {' '.join(n for n,_ in reversed(tail))} ..."
        if rng.random()<0.5: d = f"b... ({' '.join(n for n,_ in tail)}) -> ({' '.join(n for n,_ in reversed(tail))}) b..." if 'b' not in dict(tail) else d
        shp = tuple(s for _,s in ax[:k]) + (tuple(s for _,s in tail) if '(' not in d else (int(np.prod([s for _,s in tail])),))
        kw = {n:s for n,s in tail[1:]} if '(' in d else {}
        return ("id", d, [mkdata(rng, shp, kind)], kw)
    if fam == "reduce":
        op = rng.choice(REDUCE); ax = axes(rng, rng.randint(1,4)); gi = group(rng, ax)
        br = frozenset(n for n,_ in ax if rng.random()<0.5) or frozenset([ax[0][0]])
        keep = [a for a in ax if a[0] not in br]; rng.shuffle(keep)
        style = rng.choice(["br","br_out","nobr_out"])
        k2 = "float" if op in ("mean","var","std","logsumexp") else ("bool" if op in ("any","all") else kind)
        x = mkdata(rng, gshape(gi), k2); kw = sizes_kw(rng,[gi])
        if style=="br": d = gstr(gi, br)
        elif style=="br_out": d = f"{gstr(gi, br)} -> {' '.join(n for n,_ in keep)}"
        else: d = f"{gstr(gi)} -> {' '.join(n for n,_ in keep)}"
        return (op, d, [x], kw)
    if fam == "elem":
        op = rng.choice(ELEM); ax = axes(rng, rng.randint(1,4))
        nin = 3 if op=="where" else 2
        ins=[]
        for i in range(nin):
            sub = [a for a in ax if rng.random()<0.7] if i>0 else ax[:]
            rng.shuffle(sub); ins.append(sub)
        out = ax[:]; rng.shuffle(out)
        k2 = "bool" if op.startswith("logical") else ("float" if op in ("true_divide","logaddexp") else kind)
        xs = [mkdata(rng, tuple(s for _,s in sub), "bool" if (op=="where" and i==0) else k2) for i,sub in enumerate(ins)]
        d = ", ".join(" ".join(n for n,_ in sub) for sub in ins)
        if rng.random()<0.7: d += " -> " + " ".join(n for n,_ in out)
        return (op, d, xs, {})
    if fam == "dot":
        ax = axes(rng, rng.randint(2,5)); role = {n: rng.choice("bclr") for n,_ in ax}
        if 'c' not in role.values(): role[ax[0][0]]='c'
        l = [a for a in ax if role[a[0]] in "bcl"]; r = [a for a in ax if role[a[0]] in "bcr"]; o = [a for a in ax if role[a[0]] in "blr"]
        rng.shuffle(l); rng.shuffle(r); rng.shuffle(o)
        br = frozenset(n for n in role if role[n]=='c') if rng.random()<0.5 else frozenset()
        d = f"{gstr([[a] for a in l],br)}, {gstr([[a] for a in r],br)} -> {' '.join(n for n,_ in o)}"
        return ("dot", d, [mkdata(rng, tuple(s for _,s in l), kind), mkdata(rng, tuple(s for _,s in r), kind)], {})
    if fam in ("get_at","update_at"):
        ax = axes(rng, rng.randint(1,3), sizes=(2,3,4)); nb = rng.randint(1,len(ax))
        br = frozenset(n for n,_ in ax[:nb]); tl = ax[:]; rng.shuffle(tl)
        idxax = axes(rng, rng.randint(1,2), sizes=(1,2,3)); idxax = [(n+"i",s) for n,s in idxax]
        tshape = tuple(s for _,s in tl); t = mkdata(rng, tshape, kind)
        brsizes = [s for n,s in tl if n in br]
        ishape = tuple(s for _,s in idxax)
        coords = np.stack([np.array([rng.randrange(s) for _ in range(int(np.prod(ishape)))]).reshape(ishape) for s in brsizes], axis=-1)
        cexpr = " ".join(n for n,_ in idxax) + f" [{len(brsizes)}]"
        free = [a for a in tl if a[0] not in br]
        if fam=="get_at":
            o = idxax+free; rng.shuffle(o)
            return ("get_at", f"{gstr([[a] for a in tl],br)}, {cexpr} -> {' '.join(n for n,_ in o)}", [t, coords], {})
        op = rng.choice(["set_at","add_at","subtract_at"])
        u = idxax + [a for a in free if rng.random()<0.7]; rng.shuffle(u)
        upd = mkdata(rng, tuple(s for _,s in u), kind)
        return (op, f"{gstr([[a] for a in tl],br)}, {cexpr}, {' '.join(n for n,_ in u)}", [t, coords, upd], {})
    if fam == "argfind":
        op = rng.choice(["argmax","argmin"]); ax = axes(rng, rng.randint(1,4))
        br = frozenset(n for n,_ in ax if rng.random()<0.5) or frozenset([ax[0][0]])
        d = gstr([[a] for a in ax], br)
        if len(br)==1 and rng.random()<0.5: d += " -> " + " ".join(n for n,_ in ax if n not in br)
        return (op, d, [mkdata(rng, tuple(s for _,s in ax), kind)], {})
    if fam == "pres":
        op = rng.choice(PRES); ax = axes(rng, rng.randint(1,4))
        one = op in ("sort","argsort")
        br = frozenset([rng.choice(ax)[0]]) if one else (frozenset(n for n,_ in ax if rng.random()<0.5) or frozenset([ax[0][0]]))
        kw = {"shift": rng.randint(-3,3)} if op=="roll" else {}
        k2 = "float" if "softmax" in op else kind
        return (op, gstr([[a] for a in ax], br), [mkdata(rng, tuple(s for _,s in ax), k2)], kw)

def corrupt(rng, call):
    op, d, xs, kw = call
    c = rng.choice(["dim","dropaxis","dupaxis","bracket","kwdel","kwbad","tensor","char"])
    xs = list(xs); kw = dict(kw)
    if c=="dim" and xs and xs[0].ndim: 
        x=xs[0]; xs[0]=np.concatenate([x, x.take([0],axis=0)], axis=0)
    elif c=="dropaxis": toks=d.split(" "); toks.pop(rng.randrange(len(toks))); d=" ".join(toks)
    elif c=="dupaxis": toks=d.split(" "); toks.insert(rng.randrange(len(toks)), rng.choice(toks)); d=" ".join(toks)
    elif c=="bracket": i=rng.randrange(len(d)+1); d=d[:i]+rng.choice("[]()")+d[i:]
    elif c=="kwdel" and kw: kw.pop(rng.choice(sorted(kw)))
    elif c=="kwbad" and kw: k=rng.choice(sorted(kw)); kw[k]=kw[k]+1
    elif c=="tensor" and len(xs)>1: xs.pop()
    else: i=rng.randrange(len(d)+1); d=d[:i]+rng.choice("|.-+,?")+d[i:]
    return (op, d, xs, kw)

def gen_corpus(seed, n, pbad=0.25):
    rng = random.Random(seed); out=[]
    while len(out)<n:
        c = gen_call(rng)
        if c is None: continue
        if rng.random()<pbad: c = corrupt(rng, c)
        out.append(c)
    return out
