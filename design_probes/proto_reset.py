import sys, os, types, hashlib, random, uuid
src=open('proto_lock.py').read().split("x = np.arange")[0]
sys.argv_backup=sys.argv[:]; sys.argv=[sys.argv[0],'0','0.05']   # unfixed tree
exec(src)
sys.argv=sys.argv_backup
import einx._src.frontend.backend as BK
EINX_DIR=os.path.dirname(einx.__file__)
# broad preemption set
def trace(self, frame, event, arg):
    fn=frame.f_code.co_filename
    if fn.startswith(EINX_DIR) and not fn.endswith("util/solver.py"): return self.local
    return None
Sched.trace=trace
SAVED=registry.state
ein = einx.backend.get("numpy.einsum"); npl=einx.backend.get("numpy.numpylike")
_x=np.arange(6.).reshape(2,3)
einx.sum("wa [wb]", _x); einx.add("wa wb, wb", _x, _x[0]); einx.id("wa (wb wc) -> wc wa wb", _x, wc=3); einx.dot("wa wb, wc wb -> wa wc", _x, _x)
with ein: einx.sum("wa [wb]", _x, graph=True)
registry.state=SAVED
def run(seed):
    registry.state=SAVED
    tag=hashlib.sha256(str(seed).encode()).hexdigest()[:8]
    rng=random.Random(seed)
    ur=random.Random(seed*7+1); uuid.uuid4=lambda: uuid.UUID(int=ur.getrandbits(128))
    a,b,c=[f"{n}_{tag}" for n in "abc"]
    x=np.arange(6.).reshape(2,3)
    def prog(t):
        ops=[]
        for _ in range(rng.randint(1,3)):
            k=rng.random()
            if k<0.3:
                bk=rng.choice([ein,npl])
                ops.append(lambda bk=bk:(bk.__enter__(),'enter')[1]); 
                ops.append(lambda: hashlib.md5(einx.sum(f"{a} [{b}]", x, graph=True).encode()).hexdigest()[:6])
                ops.append(lambda bk=bk:(bk.__exit__(None,None,None),'exit')[1])
            elif k<0.6: ops.append(lambda: einx.add(f"{a} {b}, {b}", x, x[0]).shape)
            elif k<0.8: ops.append(lambda: einx.id(f"{a} ({b} {c}) -> {c} {a} {b}", x, **{c:3}).shape)
            else: ops.append(lambda: einx.dot(f"{a} {b}, {c} {b} -> {a} {c}", x, x).shape)
        return ops
    s=Sched(seed, rng.choice([0.05,0.01,0.002])); SCHED[0]=s
    s.run([prog(0),prog(1)])
    SCHED[0]=None
    return hashlib.sha256(repr((s.steps,s.switches,s.log,[bk.name for bk in registry.state.use_stack])).encode()).hexdigest()[:12], s.steps
mode=sys.argv[1]; target=int(sys.argv[2])
if mode=='alone': print(run(target))
else:
    for sd in range(100,100+int(sys.argv[3])): run(sd)
    print(run(target))
