import sys, types
exec(open('proto_sched.py').read().split("x = np.arange")[0])   # reuse Sched
import einx
from einx._src.frontend.backend import registry
class U: pass
def p0(): return [lambda: getattr(einx.backend.get(tensors=[U()]) if False else None,'x',None)] 
def lookup():
    try: registry.get(None,[U()])
    except einx.errors.BackendResolutionError: return 'BRE'
def imp(k):
    def f():
        sys.modules[f'fake_mod_{k}']=types.ModuleType(f'fake_mod_{k}'); return 'imported'
    return f
bad=0
for seed in range(40):
    s=Sched(seed,2,0.2)
    s.run([[lookup],[imp(seed), imp(1000+seed)]])
    r=[l for l in s.log if l[1] not in ('ok',)]
    if r: bad+=1; print(seed, r)
print('bad',bad)
