import sys, warnings, numpy as np
warnings.simplefilter("ignore")
import einx, gen
ANCH=("frontend/backend.py","frontend/api.py","util/lru_cache.py","tracer/graph.py")
EXTRA=tuple(sys.argv[3].split(",")) if len(sys.argv)>3 else ()
files=ANCH+EXTRA
seed=int(sys.argv[1]); n=int(sys.argv[2])
np.seterr(all="ignore")
cnt=[0]
def gt(frame, ev, arg):
    if frame.f_code.co_filename.endswith(files): return lt
def lt(frame, ev, arg):
    if ev=='line': cnt[0]+=1
    return lt
for i,(op,d,xs,kw) in enumerate(gen.gen_corpus(seed,n)):
    cnt[0]=0
    sys.settrace(gt)
    try:
        try: getattr(einx,op)(d,*xs,**kw); s='OK'
        except Exception as e: s=type(e).__name__
    finally: sys.settrace(None)
    print(i,op,repr(d),s,cnt[0])
