import sys, hashlib, warnings, random, numpy as np
warnings.simplefilter("ignore")
import einx, gen
np.seterr(all="ignore")
seed=int(sys.argv[1]); n=int(sys.argv[2])
rng=random.Random(seed)
def dig(r):
    rs = r if isinstance(r,tuple) else (r,)
    return tuple((np.asarray(a).shape,str(np.asarray(a).dtype),hashlib.md5(np.ascontiguousarray(np.round(np.asarray(a,dtype=float),9)+0.0).tobytes()).hexdigest()[:8]) for a in rs)
stats={'same':0,'rejected':0,'viol':0,'ref_exc':0}
for i,(op,d,xs,kw) in enumerate(gen.gen_corpus(seed,n,pbad=0.1)):
    try: ref=dig(getattr(einx,op)(d,*[x.copy() for x in xs],**kw))
    except Exception as e: stats['ref_exc']+=1; ref=None
    pos=[j for j in range(len(xs)) if rng.random()<0.5] or [0]
    log=[]
    def mk(j):
        def f(shape):
            log.append((j,shape)); 
            assert tuple(shape)==xs[j].shape, (shape, xs[j].shape)
            return xs[j].copy()
        return f
    args=[mk(j) if j in pos else xs[j].copy() for j in range(len(xs))]
    for rep in range(2):
        log.clear()
        try:
            out=dig(getattr(einx,op)(d,*args,**kw)); exc=None
        except Exception as e: out=None; exc=type(e).__name__
        if ref is None:
            if out is not None: print('VIOL accepted-with-factory', i, op, repr(d), pos); stats['viol']+=1
            if log and exc not in ('CallOperationError',): print('VIOL invoked-on-reject', i, op, repr(d), exc, log); stats['viol']+=1
        else:
            if out is None:
                stats['rejected']+=1
                if log: print('VIOL invoked-but-failed', i, op, repr(d), exc, log); stats['viol']+=1
            else:
                if out!=ref: print('VIOL value', i, op, repr(d), pos); stats['viol']+=1
                elif sorted(j for j,_ in log)!=sorted(pos): print('VIOL count', i, op, repr(d), pos, log); stats['viol']+=1
                else: stats['same']+=1
print(stats)
