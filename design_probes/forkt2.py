import os, time, sys, gc
os.environ["OPENBLAS_NUM_THREADS"]="1"
import numpy, sympy, einx
import numpy as np
import einx._src.util.solver as S
# warm sympy without touching einx API state
a,b,c=S.Variable("a","a"),S.Variable("b","b"),S.Variable("c","c")
S.solve([(a*b, 6),(a,2),(b+c,5)])
S.solve([(a+1, b),(b,2)])
gc.collect(); gc.freeze()
x=np.arange(6.).reshape(2,3)
t=time.time()
N=30
for i in range(N):
    pid=os.fork()
    if pid==0:
        einx.sum('a [b]'+' '*i, x); einx.id('a (b c) -> c a b'+' '*i, x, c=3)
        os._exit(0)
    os.waitpid(pid,0)
print('warm-sympy zygote: per fork+2 cold calls ms', (time.time()-t)/N*1000)
